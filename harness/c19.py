"""C19 — `tt convert` equals the library pipeline, honours options, is deterministic.

Theorems (coq/Properties/C19.v) are about M = Model/Cli.v: parse_main (argparse on the raw tokens), convert / plan
(the conversion plan), run_convert / run_tokens (the run with arbitrary readers / filters / writers and its log of
effects), judged by S = Spec/CliSpec.v (command-line grammar, README acceptance table and meanings, spec_plan,
lib_pipeline, plan_events).

Ties, every run:
 1. tables regenerated from the source (harness/gen_c19.py -> Gen/CliUnicode.v, Gen/CliTables.v, Gen/CliShape.v: enum,
    registry, dataclass fields + decoder names + defaults, argparse declarations, the AST of tt.convert) and compared
    with the hand transcription by vm_compute (Proofs/C19/Tables.v), including every decoder on a fixed probe set;
 2. generated RAW command lines (5 input x 3 output formats, options shuffled and repeated, both spellings, type-inference
    variants, every documented key with valid / boundary / near-miss values, inline vs file configuration, filter lists,
    malformed input documents, token lists outside the grammar, unknown sub-commands):
      a. the real CLI in a fresh process per command line (exit status, stderr class, output bytes);
      b. the run *observed* by running the real ttconv.tt.main in-process with readers, filters, writers and open
         replaced by recorders (no edit of /repo) that log every effect in order — compared inside Coq with M's
         run_tokens (log and end); a sample again with one reader / filter / writer call raising;
      c. the observed plan executed through the library API (configuration objects built by their constructors)
         — bytes compared with the CLI's output file (or both fail and no file exists);
      d. S (Spec/CliSpec.v spec_case, spec_plan, no output event on an error path) evaluated inside Coq on what the code did;
 3. random decoder probes and random paths for splitext/get_file_type, M = code and S on the code's answer
    (acceptance and decoded meaning); every key of every module — every string-valued one in particular — is also fed a
    fixed list of values that are not strings (booleans, integers, floats, lists, objects, null), and every rejection is
    judged by its exception class: anything but the decoders' ValueError is a violation (Model/CliCases.v probe_escape;
    proved of M for all values in Proofs/C19/Reject.v);
 4. determinism (differential execution, not proof): same command under other PYTHONHASHSEEDs, with progress
    bar / log level toggled, and inside one interpreter after k other conversions in random order — byte-identical.
"""
import json, os, re, shutil, subprocess, sys, time
from concurrent.futures import ProcessPoolExecutor, ThreadPoolExecutor
import common as C
import gen_tables, gen_c19 as G

FINDINGS = {2: "undocumented-values-accepted", 4: "documented-values-rejected"}
# values that are not strings, fed to EVERY configuration key of every module on every run (see nonstring_probes)
NONSTRINGS = [None, True, False, 0, 1, -7, 23, 2 ** 70, 0.0, 2.5, -1.5, 1e300, float("nan"), float("inf"), [], ["left"], [1, "a"], [[]],
              {}, {"a": 1}, {"value": "left"}, [None], [True]]
CLI = "import sys; from ttconv.tt import main; sys.exit(main())"
EXT = {"ttml": "ttml", "scc": "scc", "stl": "stl", "srt": "srt", "vtt": "vtt"}


# ---------------------------------------------------------------------------------------------- inputs
def corpus(rng):
    """small input documents per format: (label, bytes)"""
    res = C.REPO + "/src/test/resources"
    def rd(p):
        with open(res + "/" + p, "rb") as f: return f.read()
    docs = {k: [] for k in EXT}
    for p in ("ttml/body_only.ttml", "ttml/lwsp_default.ttml", "ttml/referential_styling.ttml"):
        docs["ttml"].append((p, rd(p)))
    for p in ("scc/pop-on.scc", "scc/paint-on.scc"):
        docs["scc"].append((p, rd(p)))
    stls = sorted(f for f in os.listdir(res + "/stl/irt") if f.endswith(".stl") and os.path.getsize(res + "/stl/irt/" + f) <= 4096)
    for f in rng.sample(stls, min(5, len(stls))):
        docs["stl"].append(("stl/irt/" + f, rd("stl/irt/" + f)))
    for p in ("vtt/font.vtt", "vtt/style.vtt", "vtt/position.vtt", "vtt/alignment.vtt"):
        docs["vtt"].append((p, rd(p)))
    words = ["Hello", "world", "caf\u00e9", "\u4f60\u597d", "a & b", "x < y", "line", "two", "ITALIC", "Zo\u00eb"]
    def w(): return " ".join(rng.choice(words) for _ in range(rng.randrange(1, 4)))
    for n in range(3):
        cues = []; t = rng.randrange(0, 5)
        for k in range(rng.randrange(1, 4)):
            d = rng.randrange(1, 4); txt = w()
            if rng.random() < .5: txt = rng.choice(["<i>%s</i>", "<b>%s</b>", "<u>%s</u>", '<font color="red">%s</font>', "%s\n%s"]).replace("%s", txt)
            cues.append("%d\n00:00:%02d,%03d --> 00:00:%02d,%03d\n%s\n" % (k + 1, t, rng.randrange(1000), t + d, rng.randrange(1000), txt))
            t += d + rng.randrange(0, 3)
        docs["srt"].append((f"generated-{n}.srt", "\n".join(cues).encode("utf-8")))
        cues = ["WEBVTT\n"]; t = rng.randrange(0, 5)
        for k in range(rng.randrange(1, 4)):
            d = rng.randrange(1, 4)
            setting = rng.choice(["", " line:10%", " align:start", " position:20% size:50%", " line:0"])
            cues.append("%s00:00:%02d.%03d --> 00:00:%02d.%03d%s\n%s\n" % (rng.choice(["", "id%d\n" % k]), t, rng.randrange(1000), t + d, rng.randrange(1000), setting,
                                                                     rng.choice(["%s", "<i>%s</i>", "<b>%s</b> %s", "<c.yellow>%s</c>"]).replace("%s", w().replace("&", "and").replace("<", "lt"))))
            t += d + rng.randrange(0, 3)
        docs["vtt"].append((f"generated-{n}.vtt", "\n".join(cues).encode("utf-8")))
        lang = rng.choice(["en", "fr", "", "es-419"])
        ps = "".join('<p begin="%ds" end="%ds" %s>%s</p>' % (2 * k + 1, 2 * k + 2 + rng.randrange(3), rng.choice(["", 'tts:color="red"', 'tts:textAlign="end"', 'region="r1"']),
                                                              w().replace("&", "&amp;").replace("<", "&lt;")) for k in range(rng.randrange(1, 4)))
        docs["ttml"].append((f"generated-{n}.ttml", (
            '<?xml version="1.0" encoding="UTF-8"?>\n<tt xml:lang="%s" xmlns="http://www.w3.org/ns/ttml" xmlns:tts="http://www.w3.org/ns/ttml#styling">'
            '<head><layout><region xml:id="r1" tts:origin="10%% 10%%" tts:extent="80%% 20%%"/><region xml:id="r2" tts:origin="10%% 70%%" tts:extent="80%% 20%%" tts:backgroundColor="blue"/></layout></head>'
            '<body><div region="r2">%s</div></body></tt>' % (lang, ps)).encode("utf-8")))
    tc = ["9420 9420 94ae 94ae 9470 9470 c8e5 ecec ef80 942f 942f", "9420 9420 9452 9452 97a1 97a1 54e5 73f4 942f 942f",
          "9425 9425 94ad 94ad 9470 9470 d2ef ecec 2075 7080"]
    for n in range(2):
        lines = ["Scenarist_SCC V1.0", ""]; t = 1
        for k in range(rng.randrange(1, 4)):
            lines += ["00:00:%02d:00\t%s" % (t, rng.choice(tc)), "", "00:00:%02d:00\t942c 942c" % (t + 2), ""]; t += 4
        docs["scc"].append((f"generated-{n}.scc", "\n".join(lines).encode("ascii")))
    # documents a reader rejects: the conversion must fail and leave no output file behind
    docs["bad"] = {
        "ttml": [("bad-0.ttml", b"<tt xmlns='http://www.w3.org/ns/ttml'><body><div><p>unclosed</div></body></tt>"), ("bad-1.ttml", b""),
                 ("bad-2.ttml", b"<?xml version='1.0'?><notatt/>")],
        "scc": [("bad-0.scc", b"Scenarist_SCC V1.0\n\n00:00:00:00\tzzzz 9420\n"), ("bad-1.scc", b"Scenarist_SCC V1.0\n\nnot a time code\t9420 9420\n")],
        "stl": [("bad-0.stl", b"\x00" * 100), ("bad-1.stl", b"850STL25.01" + b" " * 500)],
        "srt": [("bad-0.srt", b"1\n00:00:01,000 -> 00:00:02,000\nnot an arrow\n"), ("bad-1.srt", b"\xff\xfe\x00bad bytes")],
        "vtt": [("bad-0.vtt", b"\xff\xfe\x00bad bytes")],
    }
    return docs


# ---------------------------------------------------------------------------------------------- case generation
VALID = {
    ("general", "log_level"): ["INFO", "WARN", "ERROR"], ("general", "progress_bar"): [True, False],
    ("general", "document_lang"): ["en", "es-419", "fr-CA", "zh-Hant-TW"],
    ("imsc_writer", "time_format"): ["frames", "clock_time", "clock_time_with_frames"],
    ("imsc_writer", "fps"): ["25/1", "30000/1001", "24000/1001", "30/1", "50/2", "1/1", "120/1", "60000/1001", "025/01"],
    ("scc_reader", "text_align"): ["auto", "left", "center", "right"],
    ("stl_reader", "disable_fill_line_gap"): [True, False], ("stl_reader", "disable_line_padding"): [True, False],
    ("stl_reader", "program_start_tc"): ["TCP", "00:00:00:00", "10:00:00:00", "00:00:01:00", "23:59:59:24"],
    ("stl_reader", "font_stack"): ["Arial", "Verdana, Arial, Tiresias, sansSerif", "monospace", '"Some Font", default', "'x y'", "a", "x, y"],
    ("stl_reader", "max_row_count"): ["MNR", 23, 11, 1, 99, 0, -1, 2 ** 40],
    ("srt_writer", "text_formatting"): [True, False],
    ("vtt_writer", "line_position"): [True, False], ("vtt_writer", "text_align"): [True, False], ("vtt_writer", "cue_id"): [True, False],
    ("lcd", "safe_area"): [0, 1, 5, 10, 29, 30], ("lcd", "preserve_text_align"): [True, False],
    ("lcd", "color"): ["red", "#FFFFFF", "#00ff0080", "rgb(1,2,3)", "rgba(255,255,0,128)", None, "#000000", "#ffffffff", "rgb(0,0,0)", "rgb(255,255,255)",
                       "rgba(0,0,0,0)", "rgb(007,08,9)", "cyan"],
    ("lcd", "bg_color"): ["transparent", "black", "#FF0000", "rgb(0,0,255)", None, "#00000000", "rgba(255,255,255,255)", "aqua"],
}
SECTION_OF = {"scc": "scc_reader", "stl": "stl_reader"}
WSECTION_OF = {"ttml": "imsc_writer", "srt": "srt_writer", "vtt": "vtt_writer"}


def mutate(rng, s):
    """a near-miss of a documented string value"""
    if not isinstance(s, str) or not s: return rng.choice(["", " ", "x"])
    k = rng.randrange(9)
    if k == 0: return s.upper()
    if k == 1: return s.capitalize()
    if k == 2: return " " + s
    if k == 3: return s + rng.choice([" ", "x", "\n", "0"])
    if k == 4: return s[:-1]
    if k == 5:
        i = rng.randrange(len(s)); return s[:i] + rng.choice([" ", "_", "-", "+", ";", ".", "K", "\u0663", "\uff15"]) + s[i:]
    if k == 6:
        i = rng.randrange(len(s)); return s[:i] + s[i + 1:]
    if k == 7:
        return "".join(chr(0x0660 + int(c)) if c.isdigit() and rng.random() < .5 else c for c in s)
    return s.swapcase()


NEAR = {
    "KSafeArea": [-1, 31, 30.0, "30", True, 10.5, None], "KFps": ["0/1", "25/0", "-25/1", "25/1 ", "25", "25/1/1", "٢٥/1", "2_5/1"],
    "KColor": ["rgb(256,0,0)", "rgba(0,0,0,256)", "#FF0000zz", "#FF000", "rgb(1,2,3) ", "rgb(1,2,3)x", "RED", "rgb( 1,2,3)", "rgb(١,2,3)", "#ff00000"],
    "KBgColor": ["rgb(256,0,0)", "#GG0000", "rgba(1,2,3)", "Transparent", "rgba(1 ,2,3,4)"],
    "KStartTc": ["10:00:00:00x", "10:00:00:0", "tcp", "10;00;00;00", "10:00:00:00\n"], "KMaxRowCount": [True, False, "mnr", 23.0, "23"],
    "KSccTextAlign": ["LEFT", "Auto", "start", ""], "KTimeFormat": ["Frames", "clock", ""], "KLogLevel": ["DEBUG", "info", 20, "WARNING"],
    "KDocumentLang": ["not a tag", "", "en_US"], "KFontStack": ["", ",", "'", "a,,b", " "],
}
# values that are not strings reach the string-valued keys on command lines as well (the whole run, not only the decoder)
for _k in ("KFps", "KColor", "KBgColor", "KStartTc", "KSccTextAlign", "KTimeFormat", "KLogLevel", "KDocumentLang", "KFontStack", "KMaxRowCount"):
    NEAR[_k] = NEAR[_k] + [True, 5, 2.5, ["left"], {"a": 1}] + ([None] if _k == "KSccTextAlign" else [])
for _k in ("KProgressBar", "KFillLineGap", "KLinePadding", "KTextFormatting", "KLinePosition", "KVttTextAlign", "KCueId", "KPreserveTextAlign"):
    NEAR[_k] = ["true", "false", 0, 1, None, "no", [], 1.0]


def random_value(rng, sec, key):
    """(value, expected to be documented?) — mostly valid, boundary and invalid values of the right shape"""
    Kc = G.KEYS[(sec, key)]
    r = rng.random()
    if r < .70: return rng.choice(VALID[(sec, key)])
    if r < .78: return rng.choice(NEAR[Kc])
    if r < .88:
        pool = G.probe_values(Kc)
        v = rng.choice(pool)
        if isinstance(v, str) and len(v) > 300: v = rng.choice(VALID[(sec, key)])   # keep command lines short
        return v
    if r < .94: return mutate(rng, rng.choice([x for x in VALID[(sec, key)] if isinstance(x, str)] or ["true"]))
    if Kc == "KSafeArea": return rng.choice([rng.randrange(-3, 35), rng.randrange(-3, 35) + rng.random(), str(rng.randrange(-3, 35)), 30, 31, 0, -1])
    return rng.choice([rng.randrange(-2, 40), rng.random() * 40 - 5, None, [], {}, "", True, False, "0", "no", 2 ** 64])


def gen_config(rng, sections):
    """JSON object exercising the given sections (mostly), sometimes malformed in shape"""
    cfg = {}
    for sec in sections:
        r = rng.random()
        if r < .05: cfg[sec] = rng.choice([None, [], 5, "x", True, {}]); continue
        keys = [k for (s, k) in VALID if s == sec]
        d = {}
        for k in keys:
            if rng.random() < .45: d[k] = random_value(rng, sec, k)
        if rng.random() < .1: d["unknown_key"] = 1
        cfg[sec] = d
    if rng.random() < .08: cfg["no_such_section"] = {"a": 1}
    return cfg


def all_valid_config(rng, sections):
    cfg = {}
    for sec in sections:
        d = {}
        for (s, k), vals in VALID.items():
            if s == sec and rng.random() < .7: d[k] = rng.choice(vals)
        cfg[sec] = d
    return cfg


# documented values that differ from the defaults: a section built from these changes the plan (and, for writer,
# filter and reader sections, usually the bytes) if it is used although it should not be, or ignored although it should be
NONDEFAULT = {
    ("general", "log_level"): ["WARN", "ERROR"], ("general", "progress_bar"): [False],
    ("general", "document_lang"): ["es-419", "fr-CA", "zh-Hant-TW", "de"],
    ("imsc_writer", "time_format"): ["clock_time_with_frames", "frames"], ("imsc_writer", "fps"): ["25/1", "30000/1001", "30/1"],
    ("scc_reader", "text_align"): ["left", "center", "right"],
    ("stl_reader", "disable_fill_line_gap"): [True], ("stl_reader", "disable_line_padding"): [True],
    ("stl_reader", "program_start_tc"): ["00:00:01:00", "TCP"], ("stl_reader", "font_stack"): ["Arial", "monospace", '"Some Font", default'],
    ("stl_reader", "max_row_count"): [11, 99, "MNR"],
    ("srt_writer", "text_formatting"): [False],
    ("vtt_writer", "line_position"): [True], ("vtt_writer", "text_align"): [True], ("vtt_writer", "cue_id"): [False],
    ("lcd", "safe_area"): [0, 5, 29, 30], ("lcd", "preserve_text_align"): [True],
    ("lcd", "color"): ["red", "#00FF00", "rgb(1,2,3)"], ("lcd", "bg_color"): ["blue", "#FF0000", "rgba(255,255,0,128)"],
}


def nondefault_section(rng, sec):
    keys = [k for (s, k) in NONDEFAULT if s == sec]
    chosen = [k for k in keys if rng.random() < .8] or [rng.choice(keys)]
    if sec == "imsc_writer": chosen = keys          # frames need an fps
    return {k: rng.choice(NONDEFAULT[(sec, k)]) for k in chosen}


def split_configs(rng, relevant):
    """(inline, file, inline-only sections, file-only sections, shared sections): the two configurations have DIFFERENT
    section sets over the sections that matter for this command line; shared sections carry different values;
    at least one relevant section is inline-only (must be ignored) and, when possible, one is file-only (must be used)"""
    rel = list(relevant); rng.shuffle(rel)
    place = {sec: rng.choice(["inline", "file", "both"]) for sec in rel}
    place[rel[0]] = "inline"
    if len(rel) > 1: place[rel[1]] = rng.choice(["file", "both"])
    inline, filec = {}, {}
    for sec in relevant:
        if place[sec] == "inline": inline[sec] = nondefault_section(rng, sec)
        elif place[sec] == "file": filec[sec] = nondefault_section(rng, sec)
        else:
            a = nondefault_section(rng, sec); b = nondefault_section(rng, sec)
            for _ in range(5):
                if a != b: break
                b = {k: rng.choice(VALID[(sec, k)]) for k in b}
            if a == b: b = {}
            inline[sec] = a; filec[sec] = b
    if rng.random() < .2: inline["no_such_section"] = {"a": 1}
    return inline, filec, [s_ for s_ in relevant if place[s_] == "inline"], [s_ for s_ in relevant if place[s_] == "file"], \
        [s_ for s_ in relevant if place[s_] == "both"]


def type_variant(rng, fmt):
    """(file extension to use, --?type argument or None) so that the type resolves to fmt"""
    case = lambda s: rng.choice([s, s.upper(), s.capitalize(), "".join(rng.choice([c, c.upper()]) for c in s)])
    r = rng.random()
    if r < .55: return "." + case(fmt), None
    if r < .8: return rng.choice(["", ".dat", ".txt", "." + rng.choice(sorted(EXT))]), case(fmt)
    return "." + case(fmt), case(fmt)


def gen_cases(rng, n, docs):
    cases = []
    fmts_in = ["ttml", "scc", "stl", "srt", "vtt"]; fmts_out = ["ttml", "srt", "vtt"]
    pairs = [(a, b) for a in fmts_in for b in fmts_out]
    stem = lambda: rng.choice(["in", "a.b", "My File", "x", "caf\u00e9", "d.ir/f", "..a", "UPPER"])
    for idx in range(n):
        fin, fout = pairs[idx % len(pairs)] if idx < 3 * len(pairs) or rng.random() < .8 else (rng.choice(fmts_in), rng.choice(fmts_out))
        label, data = rng.choice(docs[fin])
        bad_input = idx >= len(pairs) and rng.random() < .07
        if bad_input: label, data = rng.choice(docs["bad"][fin])
        c = dict(idx=idx, sub="convert", fin=fin, fout=fout, doc=label, data=data, filters=[], inline=None, file=None, itype=None, otype=None, bad_input=bad_input)
        iext, c["itype"] = type_variant(rng, fin)
        oext, c["otype"] = type_variant(rng, fout)
        c["input"] = "in/" + stem() + iext
        c["output"] = "out/" + rng.choice(["o", "res.ult", "O"]) + oext
        kind = rng.random()
        if idx < len(pairs):
            kind = 1.0                                     # the plain matrix first: default options
            c["input"] = "in/in." + fin; c["output"] = "out/o." + fout; c["itype"] = c["otype"] = None
        # --- filters
        if kind < .97 and rng.random() < .5:
            c["filters"] = rng.choice([["lcd"], ["lcd"], ["lcd", "lcd"], ["nope"], ["lcd", "nope", "lcd"], ["LCD"], ["nope", "lcd"], [""]])
        sections = ["general"] * (rng.random() < .6) + ([SECTION_OF[fin]] if fin in SECTION_OF else []) + [WSECTION_OF[fout]] + \
                   (["lcd"] if "lcd" in c["filters"] else []) + (["lcd"] if rng.random() < .1 else [])
        sections = list(dict.fromkeys(sections))
        # --- configuration
        if kind < .10:                                      # type errors
            what = rng.randrange(6)
            if what == 0: c["input"] = "in/" + stem() + rng.choice([".txt", "", ".xml", ".", ".ttml.bak"]); c["itype"] = None
            elif what == 1: c["output"] = "out/o" + rng.choice([".txt", "", ".xml", ".", ".srt.bak"]); c["otype"] = None
            elif what == 2: c["itype"] = rng.choice(["xyz", "", "tt ml", "imsc", "ttml "])
            elif what == 3: c["otype"] = rng.choice(["xyz", "", "web vtt", "webvtt"])
            elif what == 4: c["otype"] = rng.choice(["scc", "STL", "Scc", "stl"])
            else: c["output"] = "out/o" + rng.choice([".scc", ".STL"]); c["otype"] = None
        elif kind < .14:                                    # sub-commands
            c["sub"] = rng.choice([None, "frobnicate", "Convert", "conv", "validate", "convert "])
        elif kind < .20:                                    # broken sources
            what = rng.randrange(5)
            good = json.dumps(all_valid_config(rng, sections))
            if what == 0: c["inline"] = rng.choice(['{"general":', "{'a': 1}", "", "nul", '{"a" 1}'])
            elif what == 1: c["inline"] = rng.choice(['{"general":', "[1,"]); c["file"] = ("text", good)
            elif what == 2: c["file"] = ("text", rng.choice(['{"lcd": {"safe_area": }', "", "not json"])); c["inline"] = good
            elif what == 3: c["file"] = ("missing", None); c["inline"] = good
            else: c["inline"] = rng.choice(["[]", "5", '"x"', "null", "true", "[{}]"])
            if rng.random() < .3 and c["file"] is None: c["file"] = ("text", rng.choice(["[]", "7", "null", '"s"']))
        elif kind < .97:
            mk = all_valid_config if rng.random() < .35 else gen_config
            r = rng.random()
            if r < .33: c["inline"] = json.dumps(mk(rng, sections))
            elif r < .58: c["file"] = ("text", json.dumps(mk(rng, sections)))
            elif r < .68:                                   # both, same section sets: the file must win
                c["inline"] = json.dumps(mk(rng, sections)); c["file"] = ("text", json.dumps(mk(rng, sections)))
            else:                                           # both, different section sets: nothing of the inline one may be used
                relevant = ["general"] + ([SECTION_OF[fin]] if fin in SECTION_OF else []) + [WSECTION_OF[fout]] + (["lcd"] if "lcd" in c["filters"] else [])
                inl, fil, c["inline_only"], c["file_only"], c["shared"] = split_configs(rng, relevant)
                c["inline"] = json.dumps(inl); c["file"] = ("text", json.dumps(fil))
        cases.append(c)
    return cases


def argv_of(c):
    if c["sub"] is None: return []
    a = [c["sub"], "-i", c["input"], "-o", c["output"]]
    if c["itype"] is not None: a += ["--itype", c["itype"]]
    if c["otype"] is not None: a += ["--otype", c["otype"]]
    for f in c["filters"]: a += ["--filter", f]
    if c["inline"] is not None: a += ["--config=" + c["inline"]]
    if c["file"] is not None: a += ["--config_file", "cfg/config.json"]
    return a


FLAGS = {"input": ["-i", "--input"], "output": ["-o", "--output"], "itype": ["--itype"], "otype": ["--otype"], "filter": ["--filter"],
         "config": ["--config"], "config_file": ["--config_file"]}


def raw_argv(rng, c):
    """the command line as raw tokens: options in random order, written `flag value` or `flag=value`, short or long
    flags, repeated options whose earlier values must lose; sometimes outside the grammar (c["odd"]).
    Sets c["configs"] (every --config string, the effective one last) and c["cfgfiles"] ((path, content spec))."""
    c["configs"] = []; c["cfgfiles"] = []; c["odd"] = None; c["decoys"] = []
    if c["sub"] is None: return []
    groups = {k: [] for k in FLAGS}
    groups["input"].append(c["input"]); groups["output"].append(c["output"])
    if c["itype"] is not None: groups["itype"].append(c["itype"])
    if c["otype"] is not None: groups["otype"].append(c["otype"])
    groups["filter"] = list(c["filters"])
    if c["inline"] is not None: groups["config"].append(c["inline"])
    if c["file"] is not None: groups["config_file"].append("cfg/config.json"); c["cfgfiles"].append(("cfg/config.json", c["file"]))
    # earlier values of repeated options: everything about them must be ignored
    if rng.random() < .35:
        for _ in range(rng.randrange(1, 4)):
            dest = rng.choice([k for k in ("input", "output", "itype", "otype", "config", "config_file") if groups[k]])
            if dest == "input": v = rng.choice(["in/decoy.ttml", "in/missing.scc", ""])
            elif dest == "output": v = rng.choice(["out/decoy.srt", "out/decoy.ttml", "out/decoy.vtt"])
            elif dest in ("itype", "otype"): v = rng.choice(["scc", "SRT", "vtt", "xyz", "ttml", "stl"])
            elif dest == "config": v = rng.choice(['{"general": {"document_lang": "xx-decoy"}, "lcd": {"safe_area": 99}}', '{"broken', '[]',
                                                   '{"srt_writer": {"text_formatting": false}, "vtt_writer": {"cue_id": false}, "imsc_writer": {"fps": "60/1", "time_format": "frames"}}'])
            else:
                v = rng.choice(["cfg/decoy.json", "cfg/missing.json"])
                if v == "cfg/decoy.json" and not any(p == v for p, _ in c["cfgfiles"]):
                    c["cfgfiles"].append((v, ("text", rng.choice(['{"general": {"document_lang": "xx-decoy"}}', "not json", '{"lcd": {"safe_area": 1}}']))))
                elif v == "cfg/missing.json" and not any(p == v for p, _ in c["cfgfiles"]):
                    c["cfgfiles"].append((v, ("missing", None)))
            groups[dest].insert(0, v); c["decoys"].append((dest, v))
    c["configs"] = list(groups["config"])
    # a random interleaving that keeps the order inside each option
    queues = {k: list(v) for k, v in groups.items() if v}
    items = []
    while queues:
        k = rng.choice(sorted(queues)); items.append((k, queues[k].pop(0)))
        if not queues[k]: del queues[k]
    toks = []
    for dest, v in items:
        flag = rng.choice(FLAGS[dest])
        if v.startswith("-") or rng.random() < .4: toks.append(flag + "=" + v)
        else: toks += [flag, v]
    # outside the grammar
    if rng.random() < .10:
        k = rng.randrange(9); c["odd"] = k
        pos = rng.randrange(len(toks) + 1)
        def cut(dest):
            out = []; i = 0
            while i < len(toks):
                t = toks[i]
                if t in FLAGS[dest]: i += 2; continue
                if any(t.startswith(f + "=") for f in FLAGS[dest]): i += 1; continue
                out.append(t); i += 1
            return out
        if k == 0: toks = cut("input")
        elif k == 1: toks = cut("output")
        elif k == 2: toks = toks + [rng.choice(["--itype", "--filter", "--config", "-o"])]
        elif k == 3:
            # a stray word between two options (never between a flag and its value)
            starts = [i for i, t in enumerate(toks) if t.startswith("-")] + [len(toks)]
            toks.insert(rng.choice(starts), rng.choice(["extra.txt", "convert", "lcd"]))
        elif k == 4:
            starts = [i for i, t in enumerate(toks) if t.startswith("-")] + [len(toks)]
            toks.insert(rng.choice(starts), rng.choice(["--zzz", "--zzz=1", "-x", "--verbose", "-q=1"]))
        elif k == 5:
            starts = [i for i, t in enumerate(toks) if t.startswith("-")] + [len(toks)]
            toks.insert(rng.choice(starts), rng.choice(["-h", "--help"]))
        elif k == 6: toks = [rng.choice(["--otype", "--itype"]), rng.choice(["--filter", "-i", "--help"])] + toks
        elif k == 7: toks = toks + ["--help=1"]
        else: toks = [t for t in toks if t not in ("-i", "--input")][:]     # -i loses its flag: its value becomes a stray word
    return [c["sub"]] + toks


def materialise(c, root):
    """create the case directory: the input document under its name, the configuration file"""
    d = f"{root}/{c['idx']}"
    os.makedirs(d + "/out", exist_ok=True); os.makedirs(d + "/cfg", exist_ok=True)
    p = d + "/" + c["input"]; os.makedirs(os.path.dirname(p), exist_ok=True)
    with open(p, "wb") as f: f.write(c["data"])
    for path, spec in c.get("cfgfiles", []):
        if spec[0] == "text":
            with open(d + "/" + path, "w", encoding="utf-8") as f: f.write(spec[1])
    return d


# ---------------------------------------------------------------------------------------------- the real CLI
def classify_stderr(rc, err):
    """exception class of a failed run, from the exit status and the last line of stderr"""
    if rc == 0: return None
    if rc == 2: return "EExitUsage"
    lines = err.replace("\r", "\n").splitlines()
    # the exception line is the first unindented line after the last "Traceback" header (messages may span lines)
    tb = max((i for i, l in enumerate(lines) if "Traceback (most recent call last)" in l), default=None)
    if tb is not None:
        for l in lines[tb + 1:]:
            if l and not l[0].isspace():
                m = re.match(r"([\w.]+)(:|$)", l)
                if m:
                    n = m.group(1).split(".")[-1]
                    return G.EXN.get(n, "other:" + n)
                return "other:" + l[:60]
    last = [l for l in lines if l.strip()]
    last = last[-1] if last else ""
    if "is not supported" in last: return "EExitUnsupported"
    return "other:" + last[:60]


def run_cli(job):
    d, argv, hashseed, out_rel = job
    env = C.pyenv(); env["PYTHONHASHSEED"] = str(hashseed); env.pop("ISD_NO_MULTIPROC", None); env.pop("TTCONV_VERIF", None)
    outp = d + "/" + out_rel if out_rel else None
    if outp and os.path.exists(outp): os.unlink(outp)
    try:
        p = subprocess.run([C.PY, "-c", CLI] + argv, cwd=d, env=env, stdout=subprocess.PIPE, stderr=subprocess.PIPE, timeout=120)
        rc, err = p.returncode, p.stderr.decode("utf-8", "replace")
    except subprocess.TimeoutExpired:
        rc, err = -9, "timeout"
    data = None
    if outp and os.path.isfile(outp):
        with open(outp, "rb") as f: data = f.read()
    return rc, classify_stderr(rc, err), data, err[-300:]


# ---------------------------------------------------------------------------------------------- observation of the run
class Injected(RuntimeError):
    pass


def _obs_init():
    """worker initialiser: replace readers, filters and writers of the *imported* ttconv by recorders that log, in
    order, every effect of tt.convert that is visible outside it (and raise at the stage call chosen for injection)"""
    import logging, io, types, builtins
    logging.disable(logging.CRITICAL)
    sys.path.insert(0, C.SRC)
    import ttconv.tt as tt, ttconv.model as model
    from ttconv.filters.doc.lcd import LCDDocFilter
    global REC
    REC = {"events": [], "calls": 0, "inject": -1}

    def stage():
        """a reader, filter or writer is being called: the inject-th call raises"""
        n = REC["calls"]; REC["calls"] = n + 1
        if n == REC["inject"]: raise Injected("injected")

    class Doc(model.ContentDocument):
        def set_lang(self, language):
            super().set_lang(language); REC["events"].append(("lang", language))

    def reader(kind, has_cfg):
        def f(*a, **k):
            cfg = a[1] if has_cfg else None
            path = REC.pop("path", None)
            if path is None and a and hasattr(a[0], "name"): path = a[0].name
            REC["events"].append(("read", kind, cfg, path)); stage(); return Doc()
        return f

    # TTML: et.parse(inputfile) and imsc_reader.to_model together are the reader
    def et_parse(path, *a, **k):
        REC["events"].append(("read", "ttml", None, path)); stage(); return None
    tt.et = types.SimpleNamespace(parse=et_parse)
    tt.imsc_reader.to_model = lambda *a, **k: Doc()
    # SCC: Path(inputfile).read_text() happens before the configuration is read; remember the path for the reader call
    class PathStub:
        def __init__(self, p): self.p = p
        def read_text(self, *a, **k):
            REC["path"] = self.p
            with builtins.open(self.p) as f: return f.read()
    tt.Path = PathStub
    tt.scc_reader.to_model = reader("scc", True)
    tt.stl_reader.to_model = reader("stl", True)
    tt.srt_reader.to_model = reader("srt", False)
    tt.vtt_reader.to_model = reader("vtt", False)

    def process(self, doc):
        REC["events"].append(("filter", self.config)); stage()
    LCDDocFilter.process = process

    class Tree:
        def write(self, path, *a, **k): REC["events"].append(("output", path))
    def w_ttml(m, cfg, cb=None):
        REC["events"].append(("write", "ttml", cfg)); stage(); return Tree()
    def w_srt(m, cfg, cb=None):
        REC["events"].append(("write", "srt", cfg)); stage(); return ""
    def w_vtt(m, cfg, cb=None):
        REC["events"].append(("write", "vtt", cfg)); stage(); return ""
    tt.imsc_writer.from_model = w_ttml; tt.srt_writer.from_model = w_srt; tt.vtt_writer.from_model = w_vtt

    # open(outputfile, "w"): the output file is opened for writing; every other open is the real one
    class Sink:
        def __enter__(self): return self
        def __exit__(self, *a): return False
        def write(self, *a): pass
    def tt_open(path, mode="r", *a, **k):
        if "w" in mode or "a" in mode or "x" in mode or "+" in mode:
            REC["events"].append(("output", path)); return Sink()
        return builtins.open(path, mode, *a, **k)
    tt.open = tt_open

    orig = tt.LOGGER.setLevel
    def set_level(lvl):
        orig(lvl); REC["events"].append(("level", int(tt.LOGGER.level)))
    tt.LOGGER.setLevel = set_level
    class Progress:
        def __setattr__(self, name, value):
            if name != "display_progress_bar": raise AttributeError(name)
            REC["events"].append(("progress", value))
    tt.progress = Progress()


def observe(job):
    """run the real tt.main on argv (cwd = the case's observation directory) with the inject-th stage call raising
    (-1: none) and return the observed log and end"""
    d, argv, raw_cfg, inject = job
    import ttconv.tt as tt, io, contextlib
    os.chdir(d)
    REC["events"] = []; REC["calls"] = 0; REC["inject"] = inject; REC.pop("path", None)
    end = None
    try:
        with contextlib.redirect_stdout(io.StringIO()), contextlib.redirect_stderr(io.StringIO()):
            tt.main(list(argv))
    except SystemExit as e:
        if e.code == 0: end = dict(kind="help")
        elif e.code == 2: end = dict(kind="error", exn="EExitUsage")
        elif isinstance(e.code, str) and "is not supported" in e.code: end = dict(kind="error", exn="EExitUnsupported")
        else: end = dict(kind="error", exn=f"other:SystemExit({e.code!r})")
    except Injected:
        end = dict(kind="error", exn="(EStage 1)")
    except Exception as e:
        end = dict(kind="error", exn=G.EXN.get(type(e).__name__, "other:" + type(e).__name__))
    evs = list(REC["events"])
    if end is None:
        outs = [e for e in evs if e[0] == "output"]
        if not argv or not evs: end = dict(kind="help")
        elif len(outs) != 1 or evs[-1][0] != "output": end = dict(kind="error", exn="other:run ended without a single final output event")
        else: end = dict(kind="done", path=outs[0][1])
    try:
        end["events"] = [event_plain(e, raw_cfg) for e in evs]
    except G.GenError as e:
        end = dict(kind="error", exn="other:canonicaliser:" + str(e), events=[])
    return end


def event_plain(e, raw_cfg):
    """recorded event -> plain JSON-able list (configuration objects through cfg_plain, fail-closed)"""
    k = e[0]
    if k == "progress":
        if e[1] is not True and e[1] is not False: raise G.GenError(f"progress flag {e[1]!r}")
        return ["progress", e[1]]
    if k == "level": return ["level", e[1]]
    if k == "read":
        if not isinstance(e[3], str): raise G.GenError(f"reader path {e[3]!r}")
        return ["read", e[1], cfg_plain(e[1] + "_r", e[2], raw_cfg), e[3]]
    if k == "lang":
        if not isinstance(e[1], str): raise G.GenError(f"language {e[1]!r}")
        return ["lang", e[1]]
    if k == "filter": return ["filter", cfg_plain("lcd", e[1], raw_cfg)]
    if k == "write": return ["write", e[1], cfg_plain(e[1] + "_w", e[2], raw_cfg)]
    if k == "output":
        if not isinstance(e[1], str): raise G.GenError(f"output path {e[1]!r}")
        return ["output", e[1]]
    raise G.GenError(f"event {e!r}")


def plan_of(events):
    """the plan a complete log shows (for the library run)"""
    p = dict(lang=None, filters=[])
    for e in events:
        if e[0] == "read": p["reader"] = [e[1], e[2]]
        elif e[0] == "lang": p["lang"] = e[1]
        elif e[0] == "filter": p["filters"].append(e[1])
        elif e[0] == "write": p["writer"] = [e[1], e[2]]
    return p


def cfg_plain(kind, c, raw_cfg):
    """configuration object -> plain JSON-able dict (fail-closed via the gen_c19 printers' checks)"""
    if c is None: return None
    from fractions import Fraction
    if kind in ("ttml_r", "srt_r", "vtt_r"): raise G.GenError(f"{kind} called with a configuration")
    if kind == "scc_r":
        G.align_lit(c.text_align); return dict(text_align=c.text_align.name)
    if kind == "stl_r":
        # the model keeps the accepted font_stack string: find it in the configuration sources (whichever the code used)
        raw = None
        if c.font_stack is not None:
            from ttconv.imsc import utils
            for cand in raw_cfg:
                try:
                    r = cand["stl_reader"]["font_stack"]
                    if isinstance(r, str) and tuple(utils.parse_font_families(r)) == c.font_stack: raw = r; break
                except Exception: pass
        G.stl_cfg_lit(c, raw)
        return dict(disable_fill_line_gap=c.disable_fill_line_gap, program_start_tc=c.program_start_tc, disable_line_padding=c.disable_line_padding,
                    font_stack=None if c.font_stack is None else raw, max_row_count=c.max_row_count)
    if kind == "ttml_w":
        G.imsc_cfg_lit(c)
        return dict(time_format=None if c.time_format is None else c.time_format.name, fps=None if c.fps is None else [c.fps.numerator, c.fps.denominator])
    if kind == "srt_w":
        G.srt_cfg_lit(c); return dict(text_formatting=c.text_formatting)
    if kind == "vtt_w":
        G.vtt_cfg_lit(c); return dict(line_position=c.line_position, text_align=c.text_align, cue_id=c.cue_id)
    if kind == "lcd":
        G.lcd_cfg_lit(c)
        col = lambda x: None if x is None else list(x.components)
        return dict(safe_area=c.safe_area, preserve_text_align=c.preserve_text_align, color=col(c.color), bg_color=col(c.bg_color))
    raise G.GenError(f"configuration object for {kind}: {c!r}")


# ---------------------------------------------------------------------------------------------- Gallina literals of a run
TF = {"frames": "TfFrames", "clock_time": "TfClockTime", "clock_time_with_frames": "TfClockTimeWithFrames"}


def reader_lit(rk, rc):
    b = C.boolean
    if rk == "scc": return "(RdScc %s)" % G.opt(rc, lambda c: "Al" + c["text_align"].capitalize())
    if rk == "stl":
        return "(RdStl %s)" % G.opt(rc, lambda c: "(Build_stl_cfg %s %s %s %s %s)" % (
            b(c["disable_fill_line_gap"]), G.opt(c["program_start_tc"], G.txt), b(c["disable_line_padding"]), G.opt(c["font_stack"], G.txt),
            G.opt(c["max_row_count"], G.mrc_lit)))
    return {"ttml": "RdTtml", "srt": "RdSrt", "vtt": "RdVtt"}[rk]


def writer_lit(wk, wc):
    b = C.boolean
    if wk == "ttml":
        return "(WrTtml %s)" % G.opt(wc, lambda c: "(Build_imsc_cfg %s %s)" % (G.opt(c["time_format"], lambda t: TF[t]), G.opt(c["fps"], lambda f: f"({C.z(f[0])}, {C.z(f[1])})")))
    if wk == "srt": return "(WrSrt %s)" % G.opt(wc, lambda c: b(c["text_formatting"]))
    return "(WrVtt %s)" % G.opt(wc, lambda c: "(Build_vtt_cfg %s %s %s)" % (b(c["line_position"]), b(c["text_align"]), b(c["cue_id"])))


def filter_lit(f):
    col = lambda x: "(" + ", ".join(C.z(v) for v in x) + ")"
    return "(FLcd (Build_lcd_cfg %s %s %s %s))" % (C.z(f["safe_area"]), C.boolean(f["preserve_text_align"]), G.opt(f["color"], col), G.opt(f["bg_color"], col))


def event_lit(e):
    k = e[0]
    if k == "progress": return f"EvProgress {C.boolean(e[1])}"
    if k == "level": return f"EvLevel {C.z(e[1])}"
    if k == "read": return f"EvRead {reader_lit(e[1], e[2])} {G.txt(e[3])}"
    if k == "lang": return f"EvLang {G.txt(e[1])}"
    if k == "filter": return f"EvFilter {filter_lit(e[1])}"
    if k == "write": return f"EvWrite {writer_lit(e[1], e[2])}"
    if k == "output": return f"EvOutput {G.txt(e[1])}"
    raise G.GenError(f"event {e!r}")


def run_lits(o):
    """(log literal, end literal) of an observed run"""
    ev = "[" + "; ".join(event_lit(e) for e in o["events"]) + "]"
    if o["kind"] == "help": return ev, "FHelp"
    if o["kind"] == "error": return ev, f"(FError {o['exn']})"
    return ev, f"(FDone {G.txt(o['path'])} tt)"


def env_lits(c):
    """what json.loads makes of each --config string of the command line and what reading each --config_file path gives:
    (jenv literal, fenv literal, effective raw configuration or None, all raw configurations the code may have used)"""
    def parse(t):
        try: return ("ok", json.loads(t))
        except ValueError: return ("bad", None)
    jrows = []; raws = []; raw = None
    for t in c["configs"]:                                   # every --config string, the effective one last
        k, v = parse(t)
        jrows.append(f"({G.txt(t)}, {'Some ' + G.jlit(v) if k == 'ok' else 'None'})")
        if k == "ok": raws.append(v)
    if c["inline"] is not None:
        k, v = parse(c["inline"])
        if k == "ok": raw = v
    frows = []
    for path, spec in c["cfgfiles"]:                         # every --config_file path
        if spec[0] == "missing": lit = "FUnreadable"
        else:
            k, v = parse(spec[1])
            lit = f"(FGiven {G.jlit(v)})" if k == "ok" else "FMalformed"
            if k == "ok": raws.insert(0, v)
        frows.append(f"({G.txt(path)}, {lit})")
    if c["file"] is not None and c["file"][0] == "text":
        k, v = parse(c["file"][1])
        if k == "ok": raw = v
        elif c["inline"] is not None: pass
    return "[" + "; ".join(jrows) + "]", "[" + "; ".join(frows) + "]", raw, raws


def inline_is_json(t):
    try: json.loads(t); return True
    except ValueError: return False


def toks_lit(argv):
    return "[" + "; ".join(G.txt(a) for a in argv) + "]"


# ---------------------------------------------------------------------------------------------- the library pipeline
def _lib_init():
    import logging
    logging.disable(logging.CRITICAL)
    sys.path.insert(0, C.SRC)


def exec_plan(job):
    """reader -> set_lang -> filters in order -> writer, through the library API, configuration objects built by
    their constructors.  Returns ('ok', bytes) or ('raise', exception class name)."""
    plan, path = job
    import io
    from fractions import Fraction
    from pathlib import Path
    import xml.etree.ElementTree as et
    try:
        import ttconv.imsc.reader as imsc_reader, ttconv.imsc.writer as imsc_writer, ttconv.scc.reader as scc_reader
        import ttconv.stl.reader as stl_reader, ttconv.srt.reader as srt_reader, ttconv.vtt.reader as vtt_reader
        import ttconv.srt.writer as srt_writer, ttconv.vtt.writer as vtt_writer
        from ttconv.imsc import utils
        from ttconv.imsc.attributes import TimeExpressionSyntaxEnum
        from ttconv.imsc.config import IMSCWriterConfiguration
        from ttconv.scc.config import SccReaderConfiguration, TextAlignment
        from ttconv.stl.config import STLReaderConfiguration
        from ttconv.srt.config import SRTWriterConfiguration
        from ttconv.vtt.config import VTTWriterConfiguration
        from ttconv.filters.doc.lcd import LCDDocFilter, LCDDocFilterConfig
        from ttconv.style_properties import ColorType
        rk, rc = plan["reader"]
        if rk == "ttml": doc = imsc_reader.to_model(et.parse(path))
        elif rk == "scc":
            doc = scc_reader.to_model(Path(path).read_text(), None if rc is None else SccReaderConfiguration(text_align=TextAlignment[rc["text_align"]]))
        elif rk == "stl":
            cfg = None if rc is None else STLReaderConfiguration(
                disable_fill_line_gap=rc["disable_fill_line_gap"], program_start_tc=rc["program_start_tc"], disable_line_padding=rc["disable_line_padding"],
                font_stack=None if rc["font_stack"] is None else tuple(utils.parse_font_families(rc["font_stack"])), max_row_count=rc["max_row_count"])
            with open(path, "rb") as f: doc = stl_reader.to_model(f, cfg)
        elif rk == "srt":
            with open(path, "r", encoding="utf-8") as f: doc = srt_reader.to_model(f)
        else:
            with open(path, "r", encoding="utf-8") as f: doc = vtt_reader.to_model(f)
        if plan["lang"] is not None: doc.set_lang(plan["lang"])
        col = lambda x: None if x is None else ColorType(tuple(x))
        for f in plan["filters"]:
            LCDDocFilter(LCDDocFilterConfig(safe_area=f["safe_area"], preserve_text_align=f["preserve_text_align"], color=col(f["color"]),
                                            bg_color=col(f["bg_color"]))).process(doc)
        wk, wc = plan["writer"]
        if wk == "ttml":
            cfg = None if wc is None else IMSCWriterConfiguration(
                time_format=None if wc["time_format"] is None else TimeExpressionSyntaxEnum[wc["time_format"]],
                fps=None if wc["fps"] is None else Fraction(wc["fps"][0], wc["fps"][1]))
            buf = io.BytesIO(); imsc_writer.from_model(doc, cfg).write(buf, encoding="utf-8"); return ("ok", buf.getvalue())
        if wk == "srt":
            return ("ok", srt_writer.from_model(doc, None if wc is None else SRTWriterConfiguration(text_formatting=wc["text_formatting"])).encode("utf-8"))
        return ("ok", vtt_writer.from_model(doc, None if wc is None else VTTWriterConfiguration(
            line_position=wc["line_position"], text_align=wc["text_align"], cue_id=wc["cue_id"])).encode("utf-8"))
    except Exception as e:
        return ("raise", type(e).__name__)


# ---------------------------------------------------------------------------------------------- history (one interpreter)
HISTORY = r"""
import sys, json, os, logging
from ttconv.tt import main
jobs = json.load(open(sys.argv[1]))
res = []
for d, argv in jobs:
    os.chdir(d)
    try:
        main(argv); res.append(0)
    except SystemExit as e:
        res.append(2 if e.code == 2 else 1)
    except BaseException as e:
        res.append(1)
print("HISTORY-RESULT " + json.dumps(res))
"""


def run_history(job):
    root, k, seq, hashseed = job
    jf = f"{root}/history-{k}.json"
    with open(jf, "w") as f: json.dump(seq, f)
    env = C.pyenv(); env["PYTHONHASHSEED"] = str(hashseed)
    p = subprocess.run([C.PY, "-c", HISTORY, jf], env=env, stdout=subprocess.PIPE, stderr=subprocess.DEVNULL, timeout=600)
    m = re.search(r"HISTORY-RESULT (.*)", p.stdout.decode("utf-8", "replace"))
    return json.loads(m.group(1)) if m else None


# ---------------------------------------------------------------------------------------------- decoder probes, paths
def random_json(rng, depth=0):
    r = rng.random()
    if r < .1: return None
    if r < .2: return rng.random() < .5
    if r < .4: return rng.choice([0, 1, -1, 30, 31, rng.randrange(-50, 100), 2 ** 63, -2 ** 70])
    if r < .55: return rng.choice([0.0, -0.0, 0.5, 29.999, 30.5, 31.0, -0.999, -1.0, rng.uniform(-5, 40), float("nan"), float("inf"), float("-inf"), 1e22])
    if r < .85 or depth > 1: return "".join(rng.choice("aA0 1_-+/#,()\u0663\uff11K\u212a\u00df.'\"\\;:\n") for _ in range(rng.randrange(0, 6)))
    if r < .93: return [random_json(rng, depth + 1) for _ in range(rng.randrange(0, 3))]
    return {"k%d" % i: random_json(rng, depth + 1) for i in range(rng.randrange(0, 3))}


def gen_probes(rng, n):
    out = []
    keys = list(G.KEYS.items())
    for _ in range(n):
        (sec, field), K = rng.choice(keys)
        r = rng.random()
        if r < .35: v = random_json(rng)
        elif r < .6: v = rng.choice(G.probe_values(K))
        else:
            base = rng.choice([x for x in VALID[(sec, field)] + G.SPECIFIC.get(K, []) if isinstance(x, str) and len(x) < 200] or ["true"])
            v = mutate(rng, base)
            if rng.random() < .3: v = mutate(rng, v)
        if isinstance(v, str) and len(v) > 200 and rng.random() < .9: v = v[:40]
        out.append((sec, field, K, v))
    return out


def cfg_dicts(c):
    """the configuration objects a generated command line carries (inline, file), where they are JSON objects"""
    out = []
    for t in (c["inline"], c["file"][1] if c["file"] is not None and c["file"][0] == "text" else None):
        if t is None: continue
        try: j = json.loads(t)
        except ValueError: continue
        if isinstance(j, dict): out.append(j)
    return out


def string_valued(sec, field):
    """README documents a string (possibly among other things) for this key"""
    return any(isinstance(x, str) for x in VALID[(sec, field)])


def nonstring_probes():
    """every key of every module x every value of NONSTRINGS (fixed, not sampled)"""
    if set(VALID) != set(G.KEYS): raise G.GenError("VALID and the key table of gen_c19.py differ")
    return [(sec, field, K, v) for (sec, field), K in G.KEYS.items() for v in NONSTRINGS]


def gen_paths(rng, n):
    out = []
    exts = ["ttml", "scc", "srt", "stl", "vtt", "TTML", "Srt", "vTT", "txt", "xml", "", "ttm", "ttmll", "s\u0441c", "\u017fcc", "srt ", "STL"]
    for _ in range(n):
        parts = [rng.choice(["", "a", ".", "..", "a.b", "dir.d", "x y", ".hidden", "...", "\u00e9", "A"]) for _ in range(rng.randrange(1, 4))]
        p = "/".join(parts)
        if rng.random() < .8: p += rng.choice([".", "..", ""]) + rng.choice(["", "."]) + rng.choice(exts)
        if rng.random() < .1: p += "/"
        g = None if rng.random() < .6 else rng.choice(exts + ["ttml", "SCC", "Vtt", " srt", "web.vtt", ".srt"])
        out.append((g, p))
    return out


# ---------------------------------------------------------------------------------------------- main
def main():
    run = C.Run("C19", "proof")
    # recorded findings wait in findings_proposed/C19.txt until the maintainer merges them into KNOWN_FINDINGS.txt
    try:
        for line in open(C.VERIF + "/findings_proposed/C19.txt", encoding="utf-8"):
            m = re.match(r"finding\s+property=(\S+)\s+id=(\S+)\s+what=(.*)", line.strip())
            if m and m.group(1) == "C19" and not any(f["id"] == m.group(2) for f in run.findings):
                run.findings.append(dict(property="C19", id=m.group(2), what=m.group(3)))
    except FileNotFoundError:
        pass
    run.hygiene()
    sys.path.insert(0, C.SRC)
    changed, errors = gen_tables.generate({"CliUnicode", "CliTables", "CliShape"})
    if any(e.startswith("CliUnicode") for e in errors):
        run.violation("table translator failed closed: " + "; ".join(errors), dict(kind="translator", errors=errors), False)
        return run.finish()
    # a table or the shape of tt.convert could not be regenerated: the proofs cannot be re-checked (Tables.v), but the
    # correspondence run does not depend on those tables and can still find a concrete failing command line
    run.translator_errors = errors
    if errors: run.log("translator failed closed:", errors)
    if changed: run.log("tables regenerated from source:", changed)
    targets = ["Proofs/C19/Tables.vo", "Proofs/C19/Plan.vo", "Proofs/C19/Types.vo", "Proofs/C19/Accept.vo", "Proofs/C19/AcceptFont.vo",
               "Proofs/C19/AcceptColor.vo", "Proofs/C19/AcceptAll.vo", "Proofs/C19/Reject.vo", "Proofs/C19/Args.vo", "Proofs/C19/Pipeline.vo", "Proofs/C19/SpecPlan.vo",
               "Proofs/C19/Order.vo", "Proofs/C19/Main.vo", "Model/CliCases.vo"]
    ok, log = run.build(targets, clean=(run.tier == "thorough"))
    if not ok and errors: C.make(["Model/CliCases.vo"], 1500)
    proofs_ok = ok and run.theorems()
    if not ok: run.proof_log = log[-2500:]
    if proofs_ok and run.tier == "thorough":
        # independent re-check of the compiled theorems and everything they depend on
        rc, out = C.sh(["coqchk", "-silent", "-o", "-Q", ".", "TT", "TT.Properties.C19"], 3000, cwd=C.COQ)
        axioms = re.search(r"\* Axioms:\s*(.*?)\s*\* Constants/Inductives relying on type-in-type", out, re.S)
        run.cov["coqchk"] = dict(rc=rc, axioms=(axioms.group(1).strip() if axioms else "?"))
        run.cov["obligations"] += 1
        if rc == 0 and axioms and axioms.group(1).strip() == "<none>": run.cov["discharged"] += 1
        else:
            proofs_ok = False; run.proof_log = "coqchk: " + out[-1500:]
    run.witnesses()

    quick = run.tier == "quick"
    n_cases = 150 if quick else 3000
    n_probes = 1500 if quick else 30000
    n_paths = 1500 if quick else 30000
    root = f"/var/tmp/verif-c19-{os.getpid()}"
    shutil.rmtree(root, ignore_errors=True); os.makedirs(root)
    try:
        return body(run, proofs_ok, root, n_cases, n_probes, n_paths, quick)
    except Exception as e:                                   # never end without a verdict
        import traceback
        run.violation(f"the check itself failed: {type(e).__name__}: {e}", dict(kind="harness-crash", traceback=traceback.format_exc()[-3000:]), found_input=False)
        return run.finish()
    finally:
        shutil.rmtree(root, ignore_errors=True)
        C.clean_cases("Cases_C19_")


def body(run, proofs_ok, root, n_cases, n_probes, n_paths, quick):
    import logging
    rng = run.rng
    docs = corpus(rng)
    cases = gen_cases(rng, n_cases, docs)
    for c in cases:
        c["argv"] = raw_argv(rng, c)
        c["dir"] = materialise(c, root + "/cli"); c["odir"] = materialise(c, root + "/obs")
        c["jenv"], c["fenv"], c["raw"], c["raws"] = env_lits(c)
    run.log(f"{len(cases)} command lines generated")

    # ---- a. the real CLI, one fresh process per command line
    with ThreadPoolExecutor(C.NCPU) as ex:
        cli = list(ex.map(run_cli, [(c["dir"], c["argv"], 0, c["output"] if c["sub"] else None) for c in cases]))
    run.log("CLI runs done")
    # ---- b. observed runs (real tt.main, recorders instead of readers/filters/writers), then the same with one stage raising
    with ProcessPoolExecutor(C.NCPU, initializer=_obs_init) as ex:
        obs = list(ex.map(observe, [(c["odir"], c["argv"], c["raws"], -1) for c in cases], chunksize=8))
        inj_jobs = []
        for i, (c, o) in enumerate(zip(cases, obs)):
            stages = sum(1 for e in o.get("events", []) if e[0] in ("read", "filter", "write"))
            if stages and (o["kind"] == "done" or rng.random() < .5):
                for k in sorted(rng.sample(range(stages), min(stages, 1 if quick else 2))):
                    inj_jobs.append((i, k))
        if quick: inj_jobs = inj_jobs[:200]
        inj = list(ex.map(observe, [(cases[i]["odir"], cases[i]["argv"], cases[i]["raws"], k) for i, k in inj_jobs], chunksize=8))
    # ---- c. the library pipeline on the observed plan
    jobs = [(plan_of(o["events"]), c["dir"] + "/" + c["input"]) for c, o in zip(cases, obs) if o["kind"] == "done"]
    with ProcessPoolExecutor(C.NCPU, initializer=_lib_init) as ex:
        libres = list(ex.map(exec_plan, jobs, chunksize=4))
    lib = {}; it = iter(libres)
    for i, o in enumerate(obs):
        if o["kind"] == "done": lib[i] = next(it)
    run.log(f"observation ({len(obs)} + {len(inj)} with a failing stage) and library runs done")

    harness_bad = []; py_viol = []
    for i, (c, o, (rc, cls, data, err)) in enumerate(zip(cases, obs, cli)):
        c["rc"], c["cls"], c["out"], c["err"] = rc, cls, data, err
        if o["kind"] == "error" and o["exn"].startswith("other:"): harness_bad.append((i, "observation: " + o["exn"]))
        if rc == -9: harness_bad.append((i, "CLI timeout"))
        if cls is not None and cls.startswith("other:") and o["kind"] == "error" and not (c.get("bad_input") and rc != 0):
            harness_bad.append((i, f"stderr class {cls}"))
        # the recorder run and the real process must fail in the same way
        # (a malformed input document makes the real reader fail first, whatever the configuration: then only the status
        # and the absence of an output file are compared)
        if o["kind"] == "error" and not o["exn"].startswith("other:") and cls != o["exn"] and not (c.get("bad_input") and rc != 0):
            py_viol.append((i, f"real process ended with {cls} (rc {rc}) but the instrumented run with {o['exn']}"))
        if o["kind"] == "help" and rc != 0:
            py_viol.append((i, f"real process ended with status {rc} but the instrumented run printed the help text"))
        # an overridden -o value must not come into being
        for dest, v in c.get("decoys", []):
            if dest == "output" and v != c["output"] and os.path.exists(c["dir"] + "/" + v):
                py_viol.append((i, f"the overridden output path {v} was written"))
        if o["kind"] == "done":
            k, v = lib[i]
            c["cmp"] = 0 if k == "raise" else (1 if data is not None and data == v else 2)
            c["lib"] = (k, v if k == "raise" else len(v))
        else:
            c["cmp"] = 0
    for (i, k), o in zip(inj_jobs, inj):
        if o["kind"] == "error" and o["exn"].startswith("other:"): harness_bad.append((i, f"observation with stage {k} failing: " + o["exn"]))

    # ---- d. Coq: M's run = observed run (log and end); S on what the code did
    C.clean_cases("Cases_C19_")
    hdr = "From TT Require Import Base.Prelude Base.CliTypes Gen.CliUnicode Model.Cli Spec.CliSpec Model.CliCases.\n"
    files = []
    shards = []; cur = []; size = 0
    for i, (c, o) in enumerate(zip(cases, obs)):
        if o["kind"] == "error" and o["exn"].startswith("other:"): continue
        ev, fin = run_lits(o)
        lit = f"({toks_lit(c['argv'])}, {c['jenv']}, {c['fenv']}, {ev}, {fin}, {C.z(c['rc'])}, {C.boolean(c['out'] is not None)}, {c['cmp']})"
        cur.append((i, lit)); size += len(lit)
        if size > 150000: shards.append(cur); cur = []; size = 0
    if cur: shards.append(cur)
    for k, sh in enumerate(shards):
        p = f"{C.GEN}/Cases_C19_cli_{k}.v"
        open(p, "w").write(hdr + "Definition cs : list cli_case := [\n" + ";\n".join(l for _, l in sh) + "].\n"
                           "Eval vm_compute in check_all (cases_model cs).\nEval vm_compute in (7777, cases_spec cs).\n")
        files.append(("cli", p, [i for i, _ in sh]))
    shards = []; cur = []; size = 0
    for n, ((i, k), o) in enumerate(zip(inj_jobs, inj)):
        if o["kind"] == "error" and o["exn"].startswith("other:"): continue
        c = cases[i]; ev, fin = run_lits(o)
        lit = f"({toks_lit(c['argv'])}, {c['jenv']}, {c['fenv']}, {k}, {ev}, {fin})"
        cur.append((n, lit)); size += len(lit)
        if size > 150000: shards.append(cur); cur = []; size = 0
    if cur: shards.append(cur)
    for k, sh in enumerate(shards):
        p = f"{C.GEN}/Cases_C19_inj_{k}.v"
        open(p, "w").write(hdr + "Definition cs : list inj_case := [\n" + ";\n".join(l for _, l in sh) + "].\n"
                           "Eval vm_compute in check_all (injs_model cs).\nEval vm_compute in check_all (injs_spec cs).\n")
        files.append(("inj", p, [n for n, _ in sh]))

    # ---- decoder probes and paths (in-process: the code's own functions)
    logging.disable(logging.CRITICAL)
    import ttconv.tt as tt
    probes = gen_probes(rng, n_probes); prow = []
    systematic = nonstring_probes(); probes += systematic
    # always present: documented values beyond CPython's int() digit limit (what is left of finding documented-values-rejected)
    probes += [("imsc_writer", "fps", "KFps", "0" * 4299 + "25/1"), ("lcd", "color", "KColor", "rgb(" + "0" * 4300 + "1,2,3)"),
               ("imsc_writer", "fps", "KFps", "0" * 4290 + "25/1")]
    kept = []; answers = []
    for sec, field, K, v in probes:
        try:
            kind, r = G.decode_key(sec, field, v)
        except G.GenError as e:
            # the code accepted v and produced a value of a shape no documented value has (e.g. an int for a true | false key)
            py_viol.append((None, f"configuration key {sec}.{field}: the code accepts {v!r} and decodes it to a value outside the documented kinds ({e})"))
            continue
        kept.append((sec, field, K, v)); answers.append("accepted" if kind == "ok" else r)
        prow.append(f"({K}, {G.jlit(v)}, {'POk ' + r if kind == 'ok' else 'PRaise ' + r})")
    probes = kept
    paths = gen_paths(rng, n_paths); trow = []
    tcode = {tt.FileTypes.TTML: 0, tt.FileTypes.SCC: 1, tt.FileTypes.SRT: 2, tt.FileTypes.STL: 3, tt.FileTypes.VTT: 4}
    for g, p in paths:
        e = os.path.splitext(p)[1]
        try: t = tcode[tt.FileTypes.get_file_type(g, e)]
        except ValueError: t = -1
        trow.append(f"({G.opt(g, G.txt)}, {G.txt(p)}, {G.txt(e)}, {t})")
    logging.disable(logging.NOTSET)
    per = 700
    for k in range(0, len(prow), per):
        p = f"{C.GEN}/Cases_C19_probe_{k // per}.v"
        open(p, "w").write(hdr + "Definition ps : list (key * json * probe_res) := [\n" + ";\n".join(prow[k:k + per]) + "].\n"
                           "Eval vm_compute in check_all (probes_model ps).\nEval vm_compute in (7777, probes_spec ps).\n"
                           "Eval vm_compute in (8888, probes_escape ps).\n")
        files.append(("probe", p, list(range(k, min(k + per, len(prow))))))
    per = 1500
    for k in range(0, len(trow), per):
        p = f"{C.GEN}/Cases_C19_type_{k // per}.v"
        open(p, "w").write(hdr + "Definition ts : list (option text * text * text * Z) := [\n" + ";\n".join(trow[k:k + per]) + "].\n"
                           "Eval vm_compute in check_all (types_model ts).\nEval vm_compute in check_all (types_spec ts).\n")
        files.append(("type", p, list(range(k, min(k + per, len(trow))))))
    res = C.coqc_many([p for _, p, _ in files], 1500)
    m_bad = {"cli": [], "probe": [], "type": [], "inj": []}; s_bad = {"cli": [], "probe": [], "type": [], "inj": []}; excused = {"cli": {}, "probe": {}}
    unmeant = {"cli": [], "probe": []}
    escaped = []                             # probes rejected by another exception class than ValueError
    broken = []
    for kind, p, idxs in files:
        rcq, out = res[p]; flat = " ".join(out.split())
        first = re.search(r"=\s*\(\s*(\d+)\s*,\s*(\[[^\]]*\]|nil)\s*\)\s*:\s*Z \* list Z", flat)
        if rcq != 0 or not first: broken.append((p, out[-300:])); continue
        if int(first.group(1)) != len(idxs): broken.append((p, "case count")); continue
        m_bad[kind] += [idxs[int(x)] for x in re.findall(r"\d+", first.group(2))]
        if kind in ("type", "inj"):
            second = re.findall(r"=\s*\(\s*(\d+)\s*,\s*(\[[^\]]*\]|nil)\s*\)\s*:\s*Z \* list Z", flat)
            if len(second) != 2: broken.append((p, "second result")); continue
            s_bad[kind] += [idxs[int(x)] for x in re.findall(r"\d+", second[1][1])]
        else:
            m = re.search(r"=\s*\(\s*7777\s*,\s*(\[[^\]]*\]|nil)\s*\)", flat)
            if not m: broken.append((p, "class list")); continue
            codes = [int(x) for x in re.findall(r"\d+", m.group(1))]
            if len(codes) != len(idxs): broken.append((p, "class count")); continue
            for i, cde in zip(idxs, codes):
                if cde == 9: s_bad[kind].append(i)
                elif cde == 8: unmeant[kind].append(i)
                elif cde != 0: excused[kind][i] = cde
            if kind == "probe":
                m = re.search(r"=\s*\(\s*8888\s*,\s*(\[[^\]]*\]|nil)\s*\)", flat)
                if not m: broken.append((p, "escape list")); continue
                codes = [int(x) for x in re.findall(r"\d+", m.group(1))]
                if len(codes) != len(idxs): broken.append((p, "escape count")); continue
                for i, cde in zip(idxs, codes):
                    if cde == 7: escaped.append(i)
                    elif cde != 0: broken.append((p, f"escape code {cde}"))
    C.clean_cases("Cases_C19_")
    run.log(f"Coq: command lines M/code mismatches {len(m_bad['cli'])}, S failures {len(s_bad['cli'])}, not the prescribed plan {len(unmeant['cli'])}, excused by findings {len(excused['cli'])}; "
            f"runs with a failing stage: mismatches {len(m_bad['inj'])}, S failures {len(s_bad['inj'])}; "
            f"probes mismatches {len(m_bad['probe'])}, S failures {len(s_bad['probe'])}, not the documented meaning {len(unmeant['probe'])}, excused {len(excused['probe'])}, "
            f"rejected by another class than ValueError {len(escaped)}; "
            f"paths mismatches {len(m_bad['type'])}, S failures {len(s_bad['type'])}; broken files {len(broken)}")

    # ---- determinism: other hash seeds, progress/log toggles, histories within one interpreter
    good = [i for i, c in enumerate(cases) if c["sub"] == "convert" and c["odd"] is None and c["rc"] == 0 and c["out"] is not None]
    rng.shuffle(good)
    det = good[:(60 if quick else 600)]
    dmeta = []
    # the output path is part of argv: rerun with a sibling output name of the same extension
    djobs = []
    for i in det:
        c = cases[i]
        variants = [("hashseed", dict(seed=rng.choice([1, 2, 3, 7, 12345, rng.randrange(1, 2 ** 31)])))]
        if c["raw"] is None or isinstance(c["raw"], dict):
            variants.append(("progress/log", dict(seed=rng.choice([0, 5]), general=dict(progress_bar=rng.random() < .5, log_level=rng.choice(["INFO", "WARN", "ERROR"])))))
        for vn, (name, v) in enumerate(variants):
            c2 = dict(c); out2 = os.path.dirname(c["output"]) + "/v%d-" % vn + os.path.basename(c["output"]); c2["output"] = out2
            if "general" in v:
                raw = dict(c["raw"] or {})
                g = raw.get("general"); g = dict(g) if isinstance(g, dict) else {}
                g.update(v["general"]); raw["general"] = g
                if c["file"] is not None:
                    with open(c["dir"] + "/cfg/config-v.json", "w") as f: json.dump(raw, f)
                    c2["file"] = ("text", None); c2["inline"] = c["inline"]
                    a = argv_of(c2); a[a.index("cfg/config.json")] = "cfg/config-v.json"
                else:
                    c2["inline"] = json.dumps(raw); a = argv_of(c2)
            else:
                a = argv_of(c2)
            djobs.append((c["dir"], a, v["seed"], out2)); dmeta.append((i, name, v))
    with ThreadPoolExecutor(C.NCPU) as ex:
        dres = list(ex.map(run_cli, djobs))
    det_bad = []
    for (i, name, v), (rc, cls, data, err), job in zip(dmeta, dres, djobs):
        if rc != 0 or data != cases[i]["out"]:
            det_bad.append(dict(case=describe(cases[i]), variant=name, settings=v, argv=job[1], rc=rc, stderr=err[-200:],
                                same_bytes=(data == cases[i]["out"])))
    # precedence at the level of bytes: with a configuration file, dropping a (well-formed) --config changes nothing
    pjobs = []; pmeta = []
    for i, c in enumerate(cases):
        if c["sub"] == "convert" and c["odd"] is None and c["file"] is not None and c["inline"] is not None and inline_is_json(c["inline"]):
            c2 = dict(c); c2["inline"] = None; c2["output"] = os.path.dirname(c["output"]) + "/p-" + os.path.basename(c["output"])
            pjobs.append((c["dir"], argv_of(c2), 0, c2["output"])); pmeta.append(i)
    if not quick: pjobs, pmeta = pjobs[:600], pmeta[:600]
    with ThreadPoolExecutor(C.NCPU) as ex:
        pres = list(ex.map(run_cli, pjobs))
    prec_bad = []
    for i, (rc, cls, data, err), job in zip(pmeta, pres, pjobs):
        if (rc == 0) != (cases[i]["rc"] == 0) or cls != cases[i]["cls"] or data != cases[i]["out"]:
            prec_bad.append(dict(case=describe(cases[i]), without_inline=job[1], rc_with=cases[i]["rc"], rc_without=rc, class_with=cases[i]["cls"],
                                 class_without=cls, same_bytes=(data == cases[i]["out"])))
    run.log(f"precedence: {len(pjobs)} command lines re-run without their --config; differences {len(prec_bad)}")
    # histories: k conversions (some failing) in random order inside one interpreter, outputs vs the fresh-process bytes
    n_hist = 8 if quick else 80
    hjobs = []; hmeta = []
    pool = [i for i, c in enumerate(cases) if c["sub"] == "convert" and c["odd"] is None]
    for k in range(n_hist):
        seq = [rng.choice(pool) for _ in range(rng.randrange(4, 9 if quick else 14))]
        js = []
        for n, i in enumerate(seq):
            c2 = dict(cases[i]); c2["output"] = os.path.dirname(c2["output"]) + "/h%d-%d-" % (k, n) + os.path.basename(c2["output"])
            js.append((cases[i]["dir"], argv_of(c2), c2["output"]))
        hjobs.append((root, k, [(d, a) for d, a, _ in js], rng.choice([0, 1, 99]))); hmeta.append((seq, js))
    with ThreadPoolExecutor(C.NCPU) as ex:
        hres = list(ex.map(run_history, hjobs))
    hist_bad = []; hist_n = 0
    for (seq, js), r in zip(hmeta, hres):
        if r is None: harness_bad.append((seq[0], "history run produced no result")); continue
        for n, (i, (d, a, o), rcn) in enumerate(zip(seq, js, r)):
            hist_n += 1
            p = d + "/" + o
            data = open(p, "rb").read() if os.path.isfile(p) else None
            want = cases[i]["out"]
            if (rcn == 0) != (cases[i]["rc"] == 0) or data != want:
                hist_bad.append(dict(case=describe(cases[i]), position=n, history=[cases[j]["argv"] for j in seq[:n]], rc_in_history=rcn,
                                     rc_fresh=cases[i]["rc"], same_bytes=(data == want)))
    run.log(f"determinism: {len(djobs)} re-runs (hash seed, progress/log), {hist_n} conversions inside {n_hist} interpreters; "
            f"differences {len(det_bad)} + {len(hist_bad)}")

    # ---- verdict
    def replay(i):
        c = cases[i]
        return dict(case=describe(c), observed=obs[i], cli=dict(rc=c["rc"], stderr_class=c["cls"], stderr=c["err"], output_bytes=None if c["out"] is None else len(c["out"])),
                    library=c.get("lib"), cmp=c["cmp"], input_document=c["doc"],
                    rerun=f"cd <dir with {c['input']}> && PYTHONPATH={C.SRC} {C.PY} -c '{CLI}' " + " ".join(json.dumps(a) for a in c["argv"]))
    s_found = False
    for i in s_bad["cli"][:5]:
        s_found = True
        run.violation(f"`tt` contradicts the specification on command line {cases[i]['argv']}: observed {obs[i]['kind']}, exit status {cases[i]['rc']}, "
                      f"output file {'present' if cases[i]['out'] is not None else 'absent'}, library comparison {cases[i]['cmp']}", replay(i))
    for i, why in py_viol[:5]:
        s_found = True
        run.violation(why, replay(i) if i is not None else dict(kind="S-on-code", what=why))
    for i in unmeant["cli"][:5]:
        s_found = True
        run.violation(f"`tt` does not follow the plan README prescribes on command line {cases[i]['argv']} although every consulted configuration value is "
                      f"documented: observed {obs[i]}", replay(i))
    for i in unmeant["probe"][:5]:
        s_found = True
        sec, field, K, v = probes[i]
        run.violation(f"configuration key {sec}.{field}: the documented value {v!r} is accepted but not decoded to its documented meaning",
                      dict(kind="S-on-code", section=sec, key=field, value=repr(v), code=G.decode_key(sec, field, v)))
    for n in s_bad["inj"][:5]:
        s_found = True
        i, k = inj_jobs[n]
        run.violation(f"with stage call {k} raising, command line {cases[i]['argv']} ended {inj[n]['kind']} with log {inj[n]['events']}: an output file on an error path, "
                      f"or effects out of order", dict(kind="no-output-on-error", argv=cases[i]["argv"], failing_stage_call=k, observed=inj[n]))
    for i in s_bad["probe"][:5]:
        s_found = True
        sec, field, K, v = probes[i]
        run.violation(f"configuration key {sec}.{field}: the code's answer on {v!r} contradicts the documented table and no recorded finding covers it",
                      dict(kind="S-on-code", section=sec, key=field, value=repr(v), code=G.decode_key(sec, field, v)))
    for i in escaped[:5]:
        s_found = True
        sec, field, K, v = probes[i]
        run.violation(f"configuration key {sec}.{field}: the value {v!r} is not rejected by the decoder's ValueError but escapes as {answers[i]}", dict(kind="S-on-code", section=sec, key=field, value=repr(v), code=G.decode_key(sec, field, v)))
    for i in s_bad["type"][:5]:
        s_found = True
        run.violation(f"type inference on (type={paths[i][0]!r}, path={paths[i][1]!r}) contradicts the specification", dict(kind="S-on-code", given=paths[i][0], path=paths[i][1]))
    for b in det_bad[:5]:
        s_found = True
        run.violation(f"output depends on {b['variant']}: {b['argv']}", dict(kind="determinism", **b))
    for b in prec_bad[:5]:
        s_found = True
        run.violation(f"the inline configuration is not fully overridden by the configuration file: {b['case']['argv']} differs from the same command without --config",
                      dict(kind="precedence", **b))
    for b in hist_bad[:5]:
        s_found = True
        run.violation(f"output depends on earlier conversions in the same interpreter (position {b['position']})", dict(kind="history", **b))
    # recorded findings: printed only when the code really departs from S on an input their trigger covers
    fired = {}
    for kind in ("cli", "probe"):
        for i, cde in excused[kind].items():
            mask = cde - 100 if kind == "cli" else {2: 2, 3: 4}.get(cde, 0)
            for bit, fid in FINDINGS.items():
                if mask & bit: fired.setdefault(fid, []).append((kind, i))
            if kind == "cli" and mask == 0:
                s_found = True
                run.violation(f"command line {cases[i]['argv']} satisfies S only with findings excused, but no trigger fires", replay(i))
    stale = []
    for bit, fid in FINDINGS.items():
        if fid in fired:
            kind, i = fired[fid][0]
            ex = (f"{probes[i][0]}.{probes[i][1]} = {probes[i][3]!r}" if kind == "probe" else " ".join(cases[i]["argv"]))[:160]
            if not run.known(fid, f"{len(fired[fid])} inputs, e.g. {ex}"):
                s_found = True
                run.violation(f"finding {fid} fires but is not listed", dict(kind="unlisted-finding", id=fid, example=ex))
        else:
            stale.append(fid + ": no generated input triggers it any more")
    rcf, outf = C.coqc(C.COQ + "/Findings/C19.v", 600)
    if rcf != 0: stale.append("Findings/C19.v no longer compiles")
    if stale: run.cov["stale_findings"] = stale
    if harness_bad:
        run.violation(f"harness could not classify {len(harness_bad)} runs, first: {harness_bad[0]}",
                      dict(kind="harness", items=[(i, w, cases[i]["argv"]) for i, w in harness_bad[:10]]), found_input=False)
    ties_bad = m_bad["cli"] or m_bad["inj"] or m_bad["probe"] or m_bad["type"] or broken or not proofs_ok
    if ties_bad and not s_found:
        what = []
        if getattr(run, "translator_errors", None): what.append("table translator failed closed (the code no longer has the shape the model transcribes): " + "; ".join(run.translator_errors))
        if not proofs_ok: what.append("theorems of coq/Properties/C19.v (or Proofs/C19/Tables.v against the regenerated tables) no longer check: " + getattr(run, "proof_log", "")[-600:])
        if m_bad["cli"]: what.append(f"Model/Cli.v run_tokens differs from the observed run (log or end) on {len(m_bad['cli'])} command lines, first {cases[m_bad['cli'][0]]['argv']} observed {obs[m_bad['cli'][0]]}")
        if m_bad["inj"]:
            i0, k0 = inj_jobs[m_bad["inj"][0]]
            what.append(f"Model/Cli.v run_tokens differs from the observed run when stage call {k0} raises, on {len(m_bad['inj'])} runs, first {cases[i0]['argv']} observed {inj[m_bad['inj'][0]]}")
        if m_bad["probe"]: what.append(f"Model/Cli.v decoders differ from the code on {len(m_bad['probe'])} probes, first {probes[m_bad['probe'][0]][:2]} {probes[m_bad['probe'][0]][3]!r}")
        if m_bad["type"]: what.append(f"splitext/get_file_type differ on {len(m_bad['type'])} paths, first {paths[m_bad['type'][0]]}")
        if broken: what.append(f"case files did not evaluate: {broken[0]}")
        run.violation("; ".join(what), dict(kind="broken-tie", theorem_file="coq/Properties/C19.v", proofs_ok=proofs_ok,
                                            cli=[replay(i) for i in m_bad["cli"][:5]], probes=[repr(probes[i]) for i in m_bad["probe"][:10]],
                                            paths=[repr(paths[i]) for i in m_bad["type"][:10]], broken=broken[:3]), found_input=False)

    # ---- coverage
    kinds = {}
    for c, o in zip(cases, obs):
        k = o["kind"] if o["kind"] != "error" else "error:" + o["exn"]
        kinds[k] = kinds.get(k, 0) + 1
    pairs = {}; plans = {}
    for i, (c, o) in enumerate(zip(cases, obs)):
        if o["kind"] == "done":
            pl = plan_of(o["events"]); plans[i] = pl
            pairs[f"{pl['reader'][0]}->{pl['writer'][0]}"] = pairs.get(f"{pl['reader'][0]}->{pl['writer'][0]}", 0) + 1
    distinct = len({(json.dumps(plans[i], sort_keys=True, default=str), cases[i]["doc"]) for i in plans if cases[i]["cmp"] == 1})
    odd_names = {0: "-i missing", 1: "-o missing", 2: "flag without value", 3: "stray word", 4: "unknown flag", 5: "-h/--help", 6: "flag followed by flag",
                 7: "--help=1", 8: "value of -i without its flag"}
    odd = {}
    for c in cases:
        if c.get("odd") is not None: odd[odd_names[c["odd"]]] = odd.get(odd_names[c["odd"]], 0) + 1
    forms = dict(eq_form=sum(1 for c in cases for t in c["argv"][1:] if t.startswith("-") and "=" in t),
                 short_flags=sum(1 for c in cases for t in c["argv"][1:] if t in ("-i", "-o") or t.startswith(("-i=", "-o="))),
                 repeated_options=sum(len(c.get("decoys", [])) for c in cases), command_lines_with_repeated_options=sum(1 for c in cases if c.get("decoys")),
                 mixed_case_types=sum(1 for c in cases for t in (c["itype"], c["otype"]) if t and t != t.lower() and t != t.upper()),
                 unknown_filters=sum(1 for c in cases for f in c["filters"] if f != "lcd"), repeated_filters=sum(1 for c in cases if c["filters"].count("lcd") > 1))
    run.cov["obligations"] += 5
    run.cov["discharged"] += 5 - bool(m_bad["cli"] or s_bad["cli"] or unmeant["cli"]) - bool(m_bad["inj"] or s_bad["inj"]) - bool(m_bad["probe"] or s_bad["probe"] or unmeant["probe"]) \
        - bool(m_bad["type"] or s_bad["type"]) - bool(det_bad or hist_bad or prec_bad)
    run.cov.update(
        evaluations=len(cases) * 4 + len(inj) * 2 + len(probes) * 2 + len(paths) * 2 + len(djobs) + hist_n + len(pjobs),
        precedence_reruns=len(pjobs),
        distinct_nontrivial=distinct,
        rule="command lines (raw tokens): each is run as a fresh process, observed through the instrumented tt.main (ordered log of effects and end), "
             "executed through the library API and judged by M (run_tokens = observed log and end) and S (spec_case, and spec_plan when every consulted "
             "value is documented) inside Coq; a sample is observed again with one reader / filter / writer call raising; "
             "distinct_nontrivial = distinct (observed plan, input document) pairs "
             "whose library output equals the CLI's output file byte for byte. Probes: (key, JSON value) through the code's own parse; "
             "paths: os.path.splitext + FileTypes.get_file_type. Determinism: re-runs under other hash seeds / progress+log settings and "
             "conversions inside shared interpreters after random histories, compared byte for byte with the fresh-process output.",
        command_lines=len(cases), outcome_histogram=kinds, format_pairs=pairs, outside_grammar=odd, token_forms=forms,
        malformed_input_documents=sum(1 for c in cases if c.get("bad_input")), malformed_input_rejected_without_output=sum(1 for c in cases if c.get("bad_input") and c["rc"] != 0 and c["out"] is None),
        runs_with_failing_stage=len(inj), failing_stage_outcomes={k: sum(1 for o in inj if (o["kind"] if o["kind"] != "error" else "error:" + o["exn"]) == k)
                                                                   for k in {(o["kind"] if o["kind"] != "error" else "error:" + o["exn"]) for o in inj}},
        plan_checked_against_spec_plan=sum(1 for i in range(len(cases)) if i not in excused["cli"] and i not in s_bad["cli"] and cases[i].get("odd") is None),
        bytes_equal=sum(1 for c in cases if c["cmp"] == 1 and c["out"] is not None), library_raised=sum(1 for i in lib if lib[i][0] == "raise"),
        with_inline=sum(1 for c in cases if c["inline"] is not None), with_file=sum(1 for c in cases if c["file"] is not None),
        with_both=sum(1 for c in cases if c["inline"] is not None and c["file"] is not None),
        both_with_inline_only_section=sum(1 for c in cases if c.get("inline_only")),
        both_with_inline_only_section_bytes_compared=sum(1 for c in cases if c.get("inline_only") and c["cmp"] == 1),
        both_inline_only_histogram={k: sum(1 for c in cases if k in (c.get("inline_only") or [])) for k in ("general", "scc_reader", "stl_reader", "lcd", "imsc_writer", "srt_writer", "vtt_writer")},
        both_with_file_only_section=sum(1 for c in cases if c.get("file_only")), both_with_shared_section=sum(1 for c in cases if c.get("shared")),
        with_filters=sum(1 for c in cases if c["filters"]), probes=len(probes), probe_excused=len(excused["probe"]), paths=len(paths),
        determinism_reruns=len(djobs), history_conversions=hist_n, history_interpreters=n_hist,
        findings_fired={k: len(v) for k, v in fired.items()},
        nonstring_values=[repr(v) for v in NONSTRINGS],
        nonstring_probe_outcomes={f"{sec}.{field}" + (" (string-valued)" if string_valued(sec, field) else ""):
                                  {a: sum(1 for p_, a_ in zip(probes, answers) if p_[:2] == (sec, field) and not isinstance(p_[3], str) and a_ == a)
                                   for a in sorted({a_ for p_, a_ in zip(probes, answers) if p_[:2] == (sec, field) and not isinstance(p_[3], str)})}
                                  for (sec, field) in G.KEYS},
        systematic_nonstring_probes=len(systematic),
        command_lines_with_nonstring_for_string_key=sum(1 for c in cases for cfgd in cfg_dicts(c)
                                                        for sec, d in cfgd.items() if isinstance(d, dict)
                                                        for k, v in d.items() if (sec, k) in VALID and string_valued(sec, k) and not isinstance(v, str) and v is not None
                                                        and not (k == "max_row_count" and isinstance(v, int) and not isinstance(v, bool))),
        samples=[dict(argv=cases[i]["argv"], observed=obs[i], rc=cases[i]["rc"], cmp=cases[i]["cmp"]) for i in range(min(3, len(cases)))] +
                [dict(argv=cases[i]["argv"], observed=obs[i], rc=cases[i]["rc"], cmp=cases[i]["cmp"]) for i in list(excused["cli"])[:2]])
    run.assumptions += [
        "determinism and history independence are established by differential execution on the generated command lines, not by proof (M is pure by construction)",
        "byte equality with the library pipeline is differential: the observed plan (= M's plan, checked in Coq) is executed through the library API in the harness",
        "argparse is transcribed for the token forms of the grammar (Model/Cli.v parse_opts) and tied by the regenerated declaration table and the generated command lines; "
        "unique-prefix abbreviations, -ivalue, -- and dash-initial values in two-token form are outside the transcription and the generator",
        "file-system behaviour and process-global state (logging handlers, ElementTree namespace registry) are exercised, not modelled; the input file is assumed readable "
        "(for SCC the code reads it before the reader configuration, the model after)",
        "S (Spec/CliSpec.v) is my reading of README.md: null = not specified; RFC 5646 well-formedness and the TTML2 colour / font-families grammars are approximated as stated in its header",
        "recorded findings are read from findings_proposed/C19.txt until they are merged into KNOWN_FINDINGS.txt"]
    return run.finish(["harness/gen_c19.py (table translator + decoder probe runner, fail-closed)",
                       "harness/c19.py recorders (monkey-patched readers/filters/writers, tt.open, tt.et, tt.Path, tt.progress in a worker process), event canonicaliser and library executor",
                       "the running CPython for int()/str.lower()/re character classes (tables regenerated from it)"])


def describe(c):
    return dict(argv=c["argv"], input=c["input"], output=c["output"], itype=c["itype"], otype=c["otype"], filters=c["filters"], inline=c["inline"],
                config_file=c["file"], document=c["doc"])


if __name__ == "__main__":
    sys.exit(main())
