"""C12 — time-code arithmetic.  Theorems: coq/Properties/C12.v.  Tie: the extracted OCaml model
(coq/extract) against ttconv.time_code on frame ranges (exhaustive over 24 h in the thorough tier),
exact frame boundaries, parse/print, add_frames, offsets and ClockTime.  S (Spec/Smpte12M.v:
valid/succ) is mirrored here for the violation search on the implementation."""
import math, os, subprocess, sys
from fractions import Fraction
from concurrent.futures import ProcessPoolExecutor
import common as C

DRIVER = C.COQ + "/extract/tc_driver"
RATES = {"24": (24, 1), "25": (25, 1), "30": (30, 1), "50": (50, 1), "60": (60, 1),
         "30000/1001": (30000, 1001), "60000/1001": (60000, 1001), "24000/1001": (24000, 1001)}
# S constants per rate: nominal fps F and dropped labels per minute D (SMPTE ST 12-1); 24000/1001 has no
# drop-frame scheme in the standard -> only the round trip is required of it
SPEC = {"24": (24, 0), "25": (25, 0), "30": (30, 0), "50": (50, 0), "60": (60, 0),
        "30000/1001": (30, 2), "60000/1001": (60, 4)}


def ensure_driver():
    src = [C.COQ + "/Model/TimeCode.v", C.COQ + "/extract/driver.ml", C.COQ + "/extract/Extract.v"]
    if not os.path.exists(DRIVER) or any(os.path.getmtime(s) > os.path.getmtime(DRIVER) for s in src):
        with C.Lock("extract"):
            rc, out = C.sh(["sh", C.COQ + "/extract/build.sh"], 600)
            if rc: raise RuntimeError("extraction build failed: " + out[-500:])


def driver(lines):
    p = subprocess.run([DRIVER], input="\n".join(lines) + "\n", capture_output=True, text=True, timeout=3000)
    return p.stdout.splitlines()


# ---- S mirrored for the search on the implementation -----------------------------------------
def s_valid(F, D, l):
    h, m, s, f = l
    return h >= 0 and 0 <= m < 60 and 0 <= s < 60 and 0 <= f < F and not (s == 0 and m % 10 != 0 and f < D)

def s_succ(F, D, l):
    h, m, s, f = l
    if f + 1 < F: return (h, m, s, f + 1)
    if s + 1 < 60: return (h, m, s + 1, 0)
    if m + 1 < 60: return (h, m + 1, 0, 0 if (m + 1) % 10 == 0 else D)
    return (h + 1, 0, 0, 0)


def shard(args):
    """one (rate, list of frame counts) shard: code vs model, and S on the code"""
    name, ns = args
    sys.path.insert(0, C.SRC)
    from ttconv.time_code import SmpteTimeCode as T
    rn, rd = RATES[name]; fps = Fraction(rn, rd)
    out = driver([f"FL {rn} {rd} " + " ".join(map(str, ns))])
    mism, sfail, n_eval = [], [], 0
    spec = SPEC.get(name)
    for n, line in zip(ns, out):
        tc = T.from_frames(n, fps)
        lab = (tc.get_hours(), tc.get_minutes(), tc.get_seconds(), tc.get_frames())
        back = tc.to_frames()
        n_eval += 1
        if f"{lab[0]} {lab[1]} {lab[2]} {lab[3]} {back}" != line:
            mism.append((name, n, lab, back, line))
        # S on the code
        if back != n: sfail.append((name, n, "roundtrip", f"label {lab} -> {back}"))
        if spec:
            F, D = spec
            if not s_valid(F, D, lab): sfail.append((name, n, "valid", f"label {lab}"))
            nx = T.from_frames(n + 1, fps)
            nl = (nx.get_hours(), nx.get_minutes(), nx.get_seconds(), nx.get_frames())
            if nl != s_succ(F, D, lab): sfail.append((name, n, "succ", f"{lab} -> {nl}, SMPTE gives {s_succ(F, D, lab)}"))
            if not (lab < nl): sfail.append((name, n, "increasing", f"{lab} !< {nl}"))
            # str/parse round trip
            if lab[0] < 100:
                p = T.parse(str(tc), fps)
                pl = (p.get_hours(), p.get_minutes(), p.get_seconds(), p.get_frames())
                if pl != lab or p.get_frame_rate() != fps: sfail.append((name, n, "parse_print", f"{tc} -> {pl} @ {p.get_frame_rate()}"))
    if len(out) < len(ns) + 1: mism.append((name, "driver-output-short", len(out), len(ns), ""))
    return n_eval, mism[:20], sfail[:20], len(mism), len(sfail)


def frame_sets(run):
    day = 24 * 3600
    sets = {}
    for name, (rn, rd) in RATES.items():
        total = day * rn // rd
        if run.tier == "thorough":
            ns = range(0, total + 1)
        else:
            s = set()
            F = math.ceil(Fraction(rn, rd))
            for unit in {60 * F, round(60 * Fraction(rn, rd)), round(600 * Fraction(rn, rd)), 600 * F, 3600 * F}:
                for k in range(0, total // unit + 2):
                    for d in range(-3, 4):
                        v = k * unit + d
                        if 0 <= v <= total: s.add(v)
            off = run.rng.randrange(0, 101)
            s.update(range(off, total, 101))
            s.update(run.rng.randrange(0, total * 5) for _ in range(2000))   # beyond 24 h too
            ns = sorted(s)
        sets[name] = ns
    return sets


def main():
    run = C.Run("C12", "proof")
    run.hygiene()
    ok, log = run.build(["Proofs/C12/Derived.vo"], clean=(run.tier == "thorough"))
    proofs_ok = ok and run.theorems()
    if not ok: run.proof_log = log[-3000:]
    try:
        ensure_driver()
    except Exception as e:
        run.violation(str(e), dict(kind="build", file="coq/extract"), False); return run.finish()
    run.witnesses()

    # ---- frames <-> labels -------------------------------------------------------------------
    sets = frame_sets(run)
    jobs = []
    for name, ns in sets.items():
        ns = list(ns); step = 20000
        jobs += [(name, ns[i:i + step]) for i in range(0, len(ns), step)]
    mism, sfail, n_eval, n_mism, n_sfail = [], [], 0, 0, 0
    with ProcessPoolExecutor(C.NCPU) as ex:
        for ne, mm, sf, nm, ns_ in ex.map(shard, jobs):
            n_eval += ne; mism += mm; sfail += sf; n_mism += nm; n_sfail += ns_
    run.log(f"frames: {n_eval} evaluations, {n_mism} model/code mismatches, {n_sfail} S failures on the code")

    # ---- other operations: single process, moderate volume ----------------------------------------
    sys.path.insert(0, C.SRC)
    from ttconv.time_code import SmpteTimeCode as T, ClockTime as CT
    rng = run.rng
    nother = 20000 if run.tier == "thorough" else 2500
    cmds, expect, desc = [], [], []
    for name, (rn, rd) in RATES.items():
        fps = Fraction(rn, rd); total = 24 * 3600 * rn // rd
        for _ in range(nother // 8):
            k = rng.randrange(0, total)
            # exact frame boundary (S: must be frame k) and a random rational
            x = Fraction(k) / fps
            tc = T.from_seconds(x, fps)
            cmds.append(f"S {rn} {rd} {x.numerator} {x.denominator}")
            expect.append(f"{tc.get_hours()} {tc.get_minutes()} {tc.get_seconds()} {tc.get_frames()}"); desc.append(("from_seconds", name, str(x)))
            if name in SPEC or True:
                want = T.from_frames(k, fps)
                if tc != want:
                    sfail.append((name, k, "boundary", f"from_seconds({x}) = {tc}, frame {k} is {want}")); n_sfail += 1
            y = Fraction(rng.randrange(0, 10 ** 9), rng.randrange(1, 10 ** 6))
            tc = T.from_seconds(y, fps)
            cmds.append(f"S {rn} {rd} {y.numerator} {y.denominator}")
            expect.append(f"{tc.get_hours()} {tc.get_minutes()} {tc.get_seconds()} {tc.get_frames()}"); desc.append(("from_seconds", name, str(y)))
            if name in SPEC and tc != T.from_frames(math.floor(y * fps), fps):
                sfail.append((name, str(y), "from_seconds_floor", str(tc))); n_sfail += 1
            # add_frames k and offsets
            base = T.from_frames(k, fps); add = rng.randrange(0, 5000)
            lab = (base.get_hours(), base.get_minutes(), base.get_seconds(), base.get_frames())
            off = base.to_temporal_offset()
            cmds.append(f"O {rn} {rd} {lab[0]} {lab[1]} {lab[2]} {lab[3]}")
            expect.append(None); desc.append(("offset", name, off))
            if name in SPEC and off != Fraction(k) / fps:
                sfail.append((name, k, "offset", f"{off} != {k}/{fps}")); n_sfail += 1
            b2 = T.from_frames(k, fps); b2.add_frames(add)
            cmds.append(f"A {rn} {rd} {add} {lab[0]} {lab[1]} {lab[2]} {lab[3]}")
            expect.append(f"{b2.get_hours()} {b2.get_minutes()} {b2.get_seconds()} {b2.get_frames()}"); desc.append(("add_frames", name, (k, add)))
            if name in SPEC and add <= 40:
                b3 = T.from_frames(k, fps)
                for _i in range(add): b3.add_frames(1)
                if b3 != b2: sfail.append((name, k, "add_frames", f"+{add} != {add} x +1")); n_sfail += 1
            # printing
            cmds.append(f"P {rn} {rd} {lab[0]} {lab[1]} {lab[2]} {lab[3]}")
            expect.append(",".join(str(ord(c)) for c in str(base))); desc.append(("print", name, lab))
    # ClockTime on Fractions: dense grid k/4000 (strided), random rationals
    clock_inputs = []
    stride = 1 if run.tier == "thorough" else 397
    limit = 4 * 10 ** 6 if run.tier == "thorough" else 4 * 10 ** 6
    clock_inputs += [Fraction(k, 4000) for k in range(rng.randrange(0, stride), limit, stride)] if run.tier == "quick" else \
                    [Fraction(k, 4000) for k in range(0, limit, 7)]
    clock_inputs += [Fraction(rng.randrange(0, 360000 * 10 ** 6), rng.randrange(1, 10 ** 6)) for _ in range(nother)]
    clock_inputs += [Fraction(2 * k + 1, 2000) for k in range(0, 3000)]          # exact ties
    # carries: just below every kind of field boundary (second, minute, hour, 100 h), at sub-millisecond distances
    for base in [rng.randrange(1, 360000) for _ in range(300)] + [60 * m for m in range(1, 130)] + [3600 * h for h in range(1, 101)]:
        for k in (1, 4, 5, 6, 9, 10, 11):
            clock_inputs.append(Fraction(base) - Fraction(k, 10000))
            clock_inputs.append(Fraction(base) + Fraction(k, 10000))
    prev = None
    for x in sorted(clock_inputs):
        ct = CT.from_seconds(x)
        ms = ((ct.get_hours() * 60 + ct.get_minutes()) * 60 + ct.get_seconds()) * 1000 + ct.get_milliseconds()
        cmds.append(f"C {x.numerator} {x.denominator}")
        expect.append(f"{ct.get_hours()} {ct.get_minutes()} {ct.get_seconds()} {ct.get_milliseconds()} " + ",".join(str(ord(c)) for c in str(ct)))
        desc.append(("clock", "", str(x)))
        if abs(Fraction(ms, 1000) - x) > Fraction(1, 2000): sfail.append(("clock", str(x), "nearest", str(ct))); n_sfail += 1
        if not (0 <= ct.get_minutes() < 60 and 0 <= ct.get_seconds() < 60 and 0 <= ct.get_milliseconds() < 1000):
            sfail.append(("clock", str(x), "fields", str(ct))); n_sfail += 1
        if prev is not None and ms < prev: sfail.append(("clock", str(x), "monotone", str(ct))); n_sfail += 1
        prev = ms
    # ClockTime on floats: S only (CPython's round(x, 3) is not transcribed)
    prev = None; nfl = 0
    for x in sorted(rng.random() * 360000 for _ in range(nother)):
        ct = CT.from_seconds(x); nfl += 1
        ms = ((ct.get_hours() * 60 + ct.get_minutes()) * 60 + ct.get_seconds()) * 1000 + ct.get_milliseconds()
        if abs(Fraction(ms, 1000) - Fraction(x)) > Fraction(1, 2000) + Fraction(1, 10 ** 9):
            sfail.append(("clock-float", repr(x), "nearest", str(ct))); n_sfail += 1
        if not (0 <= ct.get_minutes() < 60 and 0 <= ct.get_seconds() < 60 and 0 <= ct.get_milliseconds() < 1000):
            sfail.append(("clock-float", repr(x), "fields", str(ct))); n_sfail += 1
        if prev is not None and ms < prev: sfail.append(("clock-float", repr(x), "monotone", str(ct))); n_sfail += 1
        prev = ms
    # parse of printed and perturbed strings
    for name, (rn, rd) in RATES.items():
        fps = Fraction(rn, rd)
        for _ in range(nother // 16):
            k = rng.randrange(0, 24 * 3600 * rn // rd)
            s = str(T.from_frames(k, fps))
            if rng.random() < 0.5:
                i = rng.randrange(len(s)); s = s[:i] + rng.choice(":;.,x 0123456789\n") + s[i + 1:]
            if rng.random() < 0.2: s = s[:rng.randrange(len(s))]
            if rng.random() < 0.2: s = s + rng.choice(["", "x", ":00", "9"])
            try:
                p = T.parse(s, fps)
                e = f"{p.get_hours()} {p.get_minutes()} {p.get_seconds()} {p.get_frames()} {p.get_frame_rate().numerator} {p.get_frame_rate().denominator}"
            except ValueError:
                e = "NONE"
            cmds.append(f"R {rn} {rd} " + ",".join(str(ord(c)) for c in s)); expect.append(e); desc.append(("parse", name, s))
    out = driver(cmds)
    n_other = len(cmds) + nfl
    for c, e, d, o in zip(cmds, expect, desc, out):
        if d[0] == "offset":
            a, b = map(int, o.split());
            if Fraction(a, b) != d[2]: mism.append(("offset", c, str(d[2]), o, "")); n_mism += 1
        elif e != o:
            mism.append((d[0], c, e, o, str(d[2]))); n_mism += 1
    if len(out) != len(cmds): mism.append(("driver-output-short", len(out), len(cmds), "", "")); n_mism += 1
    run.log(f"other operations: {n_other} evaluations; totals: {n_mism} mismatches, {n_sfail} S failures")

    # ---- verdict -----------------------------------------------------------------------------------
    unlisted = []
    for f in sfail:
        if f[0] == "24000/1001" and f[2] in ("roundtrip",):
            run.known("roundtrip-23976", f"first failing frame count seen: {f[1]}")
        else:
            unlisted.append(f)
    # recorded finding witness must still fail on the code, otherwise say so
    fps = Fraction(24000, 1001)
    if T.from_frames(15826, fps).to_frames() != 15826:
        run.known("roundtrip-23976", "witness n=15826")
    else:
        run.cov["stale_findings"] = ["roundtrip-23976: witness no longer fails"]
    if unlisted:
        f = unlisted[0]
        run.violation(f"{f[2]} fails on the implementation at rate {f[0]}, input {f[1]}: {f[3]}",
                      dict(kind="S-on-code", clause=f[2], rate=f[0], input=f[1], detail=f[3], others=unlisted[1:10]))
    # mismatches at 24000/1001 are still mismatches (M transcribes the code there too)
    if (n_mism or not proofs_ok) and not unlisted:
        what = []
        if not proofs_ok: what.append("theorems of coq/Properties/C12.v no longer check: " + getattr(run, "proof_log", "")[-600:])
        if n_mism: what.append(f"correspondence Model/TimeCode.v vs time_code.py disagrees on {n_mism} inputs, first {mism[0]}")
        run.violation("; ".join(what), dict(kind="broken-tie", proofs_ok=proofs_ok, theorem_file="coq/Properties/C12.v",
                                            correspondence="extracted Model/TimeCode.v vs ttconv/time_code.py",
                                            first_mismatches=mism[:10]), found_input=False)
    run.cov.update(evaluations=n_eval + n_other, distinct_nontrivial=n_eval + n_other,
                   rule="frame counts per rate (quick: +-3 around every minute/10-minute/hour carry in real and nominal counts, "
                        "a stride-101 sweep and 2000 random counts up to 5 days; thorough: every count of 24 h), each through "
                        "from_frames/to_frames/str/parse and its successor; random exact frame boundaries and rationals through "
                        "from_seconds; add_frames; offsets; ClockTime on a k/4000 grid, exact ties, random rationals (model+S) "
                        "and random floats (S only); perturbed strings through parse. Every input is distinct by construction "
                        "(sets) and non-trivial in that it exercises arithmetic on a distinct count.",
                   exhaustive=(run.tier == "thorough"),
                   samples=[dict(rate="30000/1001", n=1800, label="00:01:00;02"), dict(rate=f[0], input=str(f[1])) if (sfail and (f := sfail[0])) else dict(rate="25", boundary="29/25 -> frame 29")],
                   frames_per_rate={k: len(v) for k, v in sets.items()}, model_code_mismatches=n_mism, s_failures_on_code=n_sfail)
    run.assumptions += ["float(secs)*rate and int/int true division in time_code.py are exact below 2^53 (checked by the exhaustive sweep)",
                        "ClockTime.from_seconds on float arguments uses CPython round(x,3): compared with S only"]
    return run.finish(["coq/extract: ExtrOcamlBasic directives only; Z kept inductive; driver.ml converts decimal text"])


if __name__ == "__main__":
    sys.exit(main())
