"""C12 — time-code arithmetic.  Theorems: coq/Properties/C12.v.  Two ties, both re-checked on every run:
(1) translation: harness/pytrans.py regenerates coq/Gen/TimeCodeSrc.v from the current time_code.py (fail-closed)
and coq/Proofs/C12/SrcRefines.v proves that the generated definitions equal the hand-written Model/TimeCode.v on
the injection of its inputs (all rates in lowest terms, all frame counts / labels / rationals); the generated
definitions are also evaluated by vm_compute against the code on a few hundred inputs (PyNum = CPython);
(2) differential: the extracted OCaml model (coq/extract) against ttconv.time_code on frame ranges (exhaustive
over 24 h in the thorough tier), exact frame boundaries, parse/print, add_frames, offsets and ClockTime.
S (Spec/Smpte12M.v: valid/succ) is mirrored here for the violation search on the implementation."""
import math, os, re, subprocess, sys
from fractions import Fraction
from concurrent.futures import ProcessPoolExecutor
import common as C
import gen_tables, pytrans

DRIVER = C.COQ + "/extract/tc_driver"
RATES = {"24": (24, 1), "25": (25, 1), "30": (30, 1), "50": (50, 1), "60": (60, 1),
         "30000/1001": (30000, 1001), "60000/1001": (60000, 1001), "24000/1001": (24000, 1001)}
# S constants per rate: nominal fps F and dropped labels per minute D (SMPTE ST 12-1); 24000/1001 has no
# drop-frame scheme in the standard -> only the round trip is required of it
SPEC = {"24": (24, 0), "25": (25, 0), "30": (30, 0), "50": (50, 0), "60": (60, 0),
        "30000/1001": (30, 2), "60000/1001": (60, 4)}


def ensure_driver():
    src = [C.COQ + "/Model/TimeCode.v", C.COQ + "/extract/driver.ml", C.COQ + "/extract/Extract.v"]
    if not os.path.exists(DRIVER) or any(os.path.getmtime(s) > os.path.getmtime(DRIVER) for s in src):
        with C.Lock("extract"):
            rc, out = C.sh(["sh", C.COQ + "/extract/build.sh"], 600)
            if rc: raise RuntimeError("extraction build failed: " + out[-500:])


def driver(lines):
    p = subprocess.run([DRIVER], input="\n".join(lines) + "\n", capture_output=True, text=True, timeout=3000)
    return p.stdout.splitlines()


# ---- S mirrored for the search on the implementation -----------------------------------------
def s_valid(F, D, l):
    h, m, s, f = l
    return h >= 0 and 0 <= m < 60 and 0 <= s < 60 and 0 <= f < F and not (s == 0 and m % 10 != 0 and f < D)

def s_succ(F, D, l):
    h, m, s, f = l
    if f + 1 < F: return (h, m, s, f + 1)
    if s + 1 < 60: return (h, m, s + 1, 0)
    if m + 1 < 60: return (h, m + 1, 0, 0 if (m + 1) % 10 == 0 else D)
    return (h + 1, 0, 0, 0)


def shard(args):
    """one (rate, list of frame counts) shard: code vs model, and S on the code"""
    name, ns = args
    sys.path.insert(0, C.SRC)
    from ttconv.time_code import SmpteTimeCode as T
    rn, rd = RATES[name]; fps = Fraction(rn, rd)
    out = driver([f"FL {rn} {rd} " + " ".join(map(str, ns))])
    mism, sfail, n_eval = [], [], 0
    spec = SPEC.get(name)
    for n, line in zip(ns, out):
        tc = T.from_frames(n, fps)
        lab = (tc.get_hours(), tc.get_minutes(), tc.get_seconds(), tc.get_frames())
        back = tc.to_frames()
        n_eval += 1
        if f"{lab[0]} {lab[1]} {lab[2]} {lab[3]} {back}" != line:
            mism.append((name, n, lab, back, line))
        # S on the code
        if back != n: sfail.append((name, n, "roundtrip", f"label {lab} -> {back}"))
        if spec:
            F, D = spec
            if not s_valid(F, D, lab): sfail.append((name, n, "valid", f"label {lab}"))
            nx = T.from_frames(n + 1, fps)
            nl = (nx.get_hours(), nx.get_minutes(), nx.get_seconds(), nx.get_frames())
            if nl != s_succ(F, D, lab): sfail.append((name, n, "succ", f"{lab} -> {nl}, SMPTE gives {s_succ(F, D, lab)}"))
            if not (lab < nl): sfail.append((name, n, "increasing", f"{lab} !< {nl}"))
            # str/parse round trip
            if lab[0] < 100:
                p = T.parse(str(tc), fps)
                pl = (p.get_hours(), p.get_minutes(), p.get_seconds(), p.get_frames())
                if pl != lab or p.get_frame_rate() != fps: sfail.append((name, n, "parse_print", f"{tc} -> {pl} @ {p.get_frame_rate()}"))
    if len(out) < len(ns) + 1: mism.append((name, "driver-output-short", len(out), len(ns), ""))
    return n_eval, mism[:20], sfail[:20], len(mism), len(sfail)


# ---- first tie: translation ---------------------------------------------------------------------------
# functions of the anchored code that no translated definition covers (tied by the differential runs only)
DIFFERENTIAL_ONLY = ["SmpteTimeCode.parse (regular expressions; hand model parse_tc, theorem C12_parse_print)",
                     "ClockTime.parse (regular expression; not in M: used by the SRT/VTT readers, C10/C11)",
                     "SmpteTimeCode.from_seconds on float arguments (outside the exact model: Unsupported)",
                     "ClockTime.from_seconds on float arguments (CPython round(x, 3) on binary64: compared with S only)",
                     "SmpteTimeCode.to_seconds / ClockTime.to_seconds (float results; not part of the property)",
                     "__eq__ / __repr__ / set_separator (trivial; set_separator is the record update used in C12_source_refines_clock_str)",
                     "imsc/attributes.py to_time_format (C05's model; reaches time_code.py through from_seconds / ClockTime)"]
REFINEMENT = {"SmpteTimeCode.is_drop_frame": "C12_source_refines_is_drop_frame", "_HHMMSSTimeExpression.to_seconds": "C12_source_refines_to_seconds",
              "SmpteTimeCode.to_frames": "C12_source_refines_to_frames", "SmpteTimeCode.to_temporal_offset": "C12_source_refines_to_temporal_offset",
              "SmpteTimeCode.from_frames": "C12_source_refines_from_frames", "SmpteTimeCode.add_frames": "C12_source_refines_add_frames",
              "SmpteTimeCode.from_seconds": "C12_source_refines_from_seconds (int/Fraction branch)", "SmpteTimeCode.__str__": "C12_source_refines_tc_str",
              "ClockTime.from_seconds": "C12_source_refines_clock_from_seconds (Fraction argument)", "ClockTime.__str__": "C12_source_refines_clock_str"}
SRC_CASES = C.GEN + "/Cases_C12_src.v"
SRC_HEADER = r"""From TT Require Import Base.Prelude Base.PyNum Gen.TimeCodeSrc.
Definition qeq (x : num) (e : Z * Z) : bool := (num_n x =? fst e) && (num_d x =? snd e).
Fixpoint qseq (l : list num) (e : list (Z * Z)) : bool :=
  match l, e with [], [] => true | x :: l', y :: e' => qeq x y && qseq l' e' | _, _ => false end.
Definition tcq (o : outcome SmpteTimeCode) (e : list (Z * Z)) : bool := match o with Ok t => qseq (SmpteTimeCode_fields t) e | _ => false end.
Definition ctq (o : outcome ClockTime) (e : list (Z * Z)) : bool := match o with Ok t => qseq (ClockTime_fields t) e | _ => false end.
Definition raises {A} (o : outcome A) : bool := match o with Raise ValueError => true | _ => false end.
Definition unsupported {A} (o : outcome A) : bool := match o with Unsupported _ => true | _ => false end.
Definition cts (o : outcome ClockTime) (sep e : text) : bool := match o with Ok t => text_eqb (src_clock_str (ClockTime_set_ms_separator t sep)) e | _ => false end.
"""


def cnum(x):
    x = Fraction(x)
    return f"(inj {C.z(x.numerator)})" if x.denominator == 1 else f"(inj_frac {C.z(x.numerator)} {x.denominator})"

def qp(x):
    x = Fraction(x); return f"({C.z(x.numerator)}, {x.denominator})"

def qps(xs):
    return "[" + "; ".join(qp(x) for x in xs) + "]"


def src_cases(rng):
    """[(Coq boolean term, description)]: PyNum operations and the generated definitions against CPython / the code"""
    from ttconv.time_code import SmpteTimeCode as T, ClockTime as CT
    cases = []
    def rnd():
        k = rng.random()
        if k < 0.35: return rng.randrange(-2000, 2000)
        if k < 0.5: return rng.choice([0, 1, -1, 60, 1001, 3600, 10 ** 12])
        return Fraction(rng.randrange(-10 ** rng.randrange(1, 9), 10 ** rng.randrange(1, 9)), rng.randrange(1, 10 ** rng.randrange(1, 6)))
    binops = [("py_add", lambda a, b: a + b), ("py_sub", lambda a, b: a - b), ("py_mul", lambda a, b: a * b),
              ("py_truediv", lambda a, b: Fraction(a) / b), ("py_floordiv", lambda a, b: a // b), ("py_mod", lambda a, b: a % b)]
    unops = [("py_floor", math.floor), ("py_ceil", math.ceil), ("py_round", round), ("py_int", int), ("py_neg", lambda a: -a),
             ("py_numerator", lambda a: Fraction(a).numerator), ("py_denominator", lambda a: Fraction(a).denominator)]
    cmps = [("py_lt", lambda a, b: a < b), ("py_le", lambda a, b: a <= b), ("py_eq", lambda a, b: a == b), ("py_ge", lambda a, b: a >= b)]
    for i in range(360):
        a, b = rnd(), rnd()
        if i % 9 == 0: a = Fraction(2 * rng.randrange(-500, 500) + 1, 2)          # exact ties for round
        if i % 3 == 0:
            nm, f = binops[(i // 3) % len(binops)]
            if b == 0 and nm in ("py_truediv", "py_floordiv", "py_mod"): b = 7
            cases.append((f"qeq ({nm} {cnum(a)} {cnum(b)}) {qp(f(a, b))}", f"{nm} {a} {b}"))
        elif i % 3 == 1:
            nm, f = unops[(i // 3) % len(unops)]
            cases.append((f"qeq ({nm} {cnum(a)}) {qp(f(a))}", f"{nm} {a}"))
        else:
            nm, f = cmps[(i // 3) % len(cmps)]
            cases.append((f"Bool.eqb ({nm} {cnum(a)} {cnum(b)}) {C.boolean(f(a, b))}", f"{nm} {a} {b}"))
            nd = rng.randrange(0, 5); x = Fraction(a) + Fraction(rng.randrange(-9, 9), 2 * 10 ** nd)
            cases.append((f"qeq (py_round_nd {cnum(x)} {nd}) {qp(round(x, nd))}", f"round({x}, {nd})"))
    rates = list(RATES.values()) + [(12, 1), (15, 2), (120000, 1001), (48000, 1001), (1, 3), (2997, 100)]
    for rn, rd in rates:
        fps = Fraction(rn, rd); R = f"(Some {cnum(fps)})"; total = 24 * 3600 * rn // rd
        unit = round(600 * fps)
        for n in [0, 1, -3, rng.randrange(1, 9) * unit - 1, rng.randrange(1, 9) * unit, total - 1] + [rng.randrange(0, 3 * total + 5) for _ in range(5)]:
            try:
                tc = T.from_frames(n, fps)
                lab = [tc.get_hours(), tc.get_minutes(), tc.get_seconds(), tc.get_frames()]
                obj = f"(SmpteTimeCode_new {' '.join(cnum(v) for v in lab)} {cnum(fps)})"
                cases.append((f"tcq (src_from_frames {cnum(n)} {R}) {qps(lab + [fps])}", f"from_frames({n}, {fps})"))
                cases.append((f"Bool.eqb (src_is_drop_frame {obj}) {C.boolean(tc.is_drop_frame())}", f"is_drop_frame @ {fps}"))
                if n >= 0 and rd in (1, 2, 1001):      # elsewhere float(secs) * Fraction is not exact in CPython (documented binary64 site)
                    cases.append((f"qeq (src_to_frames {obj}) {qp(tc.to_frames())}", f"to_frames({lab} @ {fps})"))
                    cases.append((f"qeq (src_to_temporal_offset {obj}) {qp(tc.to_temporal_offset())}", f"to_temporal_offset({lab} @ {fps})"))
                    cases.append((f"text_eqb (src_tc_str {obj}) {C.text(str(tc))}", f"str({lab} @ {fps})"))
                    k = rng.randrange(0, 4000); t2 = T.from_frames(n, fps); t2.add_frames(k)
                    cases.append((f"tcq (src_add_frames {obj} {cnum(k)}) {qps([t2.get_hours(), t2.get_minutes(), t2.get_seconds(), t2.get_frames(), fps])}", f"add_frames({lab} @ {fps}, {k})"))
                    x = rng.choice([Fraction(n) / fps, Fraction(rng.randrange(0, 10 ** 8), rng.randrange(1, 10 ** 4)), Fraction(n)])
                    t3 = T.from_seconds(x, fps)
                    cases.append((f"tcq (src_from_seconds (Exact {cnum(x)}) {R}) {qps([t3.get_hours(), t3.get_minutes(), t3.get_seconds(), t3.get_frames(), fps])}", f"from_seconds({x}, {fps})"))
            except ZeroDivisionError:
                cases.append(("true", f"skipped: the code raises ZeroDivisionError at rate {fps}, n = {n} (not modelled)"))
            except Exception as e:                      # anything else the generated model cannot do either: a disagreement
                cases.append(("false", f"the code raised {type(e).__name__}: {e} at rate {fps}, n = {n}"))
    for name, call in (("from_frames", lambda: T.from_frames(5, None)), ("from_seconds", lambda: T.from_seconds(Fraction(5), None))):
        try: call(); raised = False
        except ValueError: raised = True
        arg = "(inj 5)" if name == "from_frames" else "(Exact (inj 5))"
        cases.append((f"Bool.eqb (raises (src_{name} {arg} None)) {C.boolean(raised)}", f"{name}(5, None) raises ValueError"))
    cases.append(("unsupported (src_from_seconds Inexact (Some (inj 25)))", "from_seconds(float): Unsupported"))
    xs = [Fraction(rng.randrange(0, 360000 * 10 ** 4), 10 ** 4) for _ in range(25)] + [Fraction(2 * rng.randrange(0, 10 ** 7) + 1, 2000) for _ in range(15)] + \
         [Fraction(rng.randrange(0, 10 ** 10), rng.randrange(1, 10 ** 5)) for _ in range(25)] + [Fraction(60 * k) - Fraction(d, 10000) for k in (1, 60, 6000) for d in (4, 5, 6)] + [Fraction(0)]
    for x in xs:
        ct = CT.from_seconds(x)
        cases.append((f"ctq (src_clock_from_seconds {cnum(x)}) {qps([ct.get_hours(), ct.get_minutes(), ct.get_seconds(), ct.get_milliseconds()])}", f"ClockTime.from_seconds({x})"))
        sep = rng.choice(".,"); ct.set_separator(sep)
        cases.append((f"cts (src_clock_from_seconds {cnum(x)}) {C.text(sep)} {C.text(str(ct))}", f"str(ClockTime.from_seconds({x})) with separator {sep!r}"))
    try: CT.from_seconds(Fraction(-1, 3)); raised = False
    except ValueError: raised = True
    cases.append((f"Bool.eqb (raises (src_clock_from_seconds (inj_frac (-1) 3))) {C.boolean(raised)}", "ClockTime.from_seconds(-1/3) raises ValueError"))
    return cases


def run_src_cases(run):
    """evaluate the generated definitions inside Coq against the code; returns (evaluations, [descriptions of disagreements])"""
    try:
        cases = src_cases(run.rng)
    except Exception as e:
        return 0, [f"the code raised {type(e).__name__}: {e} while the comparison inputs were being run"]
    body = SRC_HEADER + "Eval vm_compute in check_all [\n" + ";\n".join(c for c, _ in cases) + "\n].\n"
    with open(SRC_CASES, "w") as f: f.write(body)
    rc, out = C.coqc(SRC_CASES, 600)
    res = C.coq_eval_results(out)
    C.clean_cases("Cases_C12_src")
    if rc or res is None or res[0] != len(cases):
        return len(cases), ["case file did not evaluate: " + out[-400:]]
    return len(cases), [cases[i][1] for i in res[1]]


def coq_error(log):
    """the `File ..., line ...: Error: ...` part of a make / coqc log"""
    m = re.search(r'File "([^"]+)", line (\d+), characters [^\n]*\n(?:[^\n]*\n)?Error:(.*?)(?:\n\s*\n|\nmake|\Z)', log, re.S)
    if not m: return " ".join(log[-600:].split())
    msg = " ".join(m.group(3).split())
    k = re.search(r"(Unable to unify|The term|Tactic failure|Cannot|No matching|Found no subterm|The reference|Illegal)", msg)
    if msg.startswith("In environment") and k: msg = msg[k.start():]          # drop the dump of the proof context
    return f"{m.group(1)} line {m.group(2)}: {msg[:400]}"


def odd_rate_probe(rng):
    """Only used when the refinement proof is broken and S holds on the property's rates: look for a frame count at a rate
    OUTSIDE the property's rates where the code and the hand-written model differ (labels only: int / int and floor are
    exact there, float(secs) * Fraction in to_frames is not).  Returns a description or None."""
    from ttconv.time_code import SmpteTimeCode as T
    for rn, rd in [(147, 5), (59, 2), (7, 2), (10, 3), (2997, 125), (12, 1), (48000, 1001), (120000, 1001), (25000, 1001), (15000, 1001), (1, 1), (1000, 1)]:
        fps = Fraction(rn, rd); total = 24 * 3600 * rn // rd
        ns = sorted({0, 1, total} | {rng.randrange(0, 2 * total + 2) for _ in range(1500)} | set(range(0, min(total, 4000))))
        out = driver([f"FL {rn} {rd} " + " ".join(map(str, ns))])
        for n, line in zip(ns, out):
            try:
                tc = T.from_frames(n, fps); lab = f"{tc.get_hours()} {tc.get_minutes()} {tc.get_seconds()} {tc.get_frames()}"
            except Exception as e:
                lab = f"raises {type(e).__name__}"
            if lab != " ".join(line.split()[:4]):
                return f"from_frames({n}, Fraction({rn}, {rd})): code gives {lab}, Model/TimeCode.v gives {' '.join(line.split()[:4])}"
    return None


def frame_sets(run):
    day = 24 * 3600
    sets = {}
    for name, (rn, rd) in RATES.items():
        total = day * rn // rd
        if run.tier == "thorough":
            ns = range(0, total + 1)
        else:
            s = set()
            F = math.ceil(Fraction(rn, rd))
            for unit in {60 * F, round(60 * Fraction(rn, rd)), round(600 * Fraction(rn, rd)), 600 * F, 3600 * F}:
                for k in range(0, total // unit + 2):
                    for d in range(-3, 4):
                        v = k * unit + d
                        if 0 <= v <= total: s.add(v)
            off = run.rng.randrange(0, 101)
            s.update(range(off, total, 101))
            s.update(run.rng.randrange(0, total * 5) for _ in range(2000))   # beyond 24 h too
            ns = sorted(s)
        sets[name] = ns
    return sets


def main():
    run = C.Run("C12", "proof")
    run.hygiene()
    sys.path.insert(0, C.SRC)
    # ---- tie by translation: regenerate Gen/TimeCodeSrc.v from the current source (fail-closed) ---------------
    changed, trans_errors = gen_tables.generate({"TimeCodeSrc"})
    listed = "Gen/TimeCodeSrc.v" in open(C.COQ + "/_CoqProject").read()
    if listed != (not trans_errors):
        with C.Lock(): C.sh(["sh", C.VERIF + "/tools/mkproject.sh"], 60)
    tinfo = {}
    if trans_errors:
        run.violation("translator harness/pytrans.py failed closed on ttconv/time_code.py (construct outside the translated subset, "
                      "or a changed signature): " + "; ".join(trans_errors),
                      dict(kind="translator", translator="harness/pytrans.py", source="ttconv/time_code.py", errors=trans_errors,
                           consequence="coq/Gen/TimeCodeSrc.v removed; Proofs/C12/SrcRefines.v and Properties/C12.v cannot be re-established "
                                       "against the current source"), found_input=False)
    else:
        tinfo = pytrans.translate(C.SRC + "/ttconv/time_code.py")[1]
        run.log("source translated: " + ", ".join(tinfo["functions"]) + (" (text changed)" if changed else ""))
    clean = run.tier == "thorough"
    ok, log = run.build(["Proofs/C12/Derived.vo"], clean=clean)
    ok_gen = ok_src = False; log_src = ""
    if not trans_errors:
        ok_gen, log_src = run.build(["Gen/TimeCodeSrc.vo"] + (["Base/PyNum.vo"] if clean else []), clean=clean)
        if ok_gen: ok_src, log_src = run.build(["Proofs/C12/SrcRefines.vo"], clean=clean)
    thm_ok = run.theorems()          # records the theorem names also when the file cannot be compiled
    proofs_ok = ok and ok_src and thm_ok
    if not ok: run.proof_log = log[-3000:]
    elif not ok_src: run.proof_log = log_src[-3000:]
    if ok and not ok_src:
        run.log("the theorems about the hand-written model still compile (Proofs/C12/Derived.vo); their transfer to the current source does not: "
                + ("translator failed" if trans_errors else coq_error(log_src)))
    # the generated definitions evaluated inside Coq against the code (PyNum semantics = CPython on these inputs)
    n_srcev, src_bad = (0, [])
    if ok_gen:
        n_srcev, src_bad = run_src_cases(run)
        run.log(f"generated model vs code by vm_compute: {n_srcev} evaluations, {len(src_bad)} disagreements")
    try:
        ensure_driver()
    except Exception as e:
        run.violation(str(e), dict(kind="build", file="coq/extract"), False); return run.finish()
    run.witnesses()

    # ---- frames <-> labels -------------------------------------------------------------------
    sets = frame_sets(run)
    jobs = []
    for name, ns in sets.items():
        ns = list(ns); step = 20000
        jobs += [(name, ns[i:i + step]) for i in range(0, len(ns), step)]
    mism, sfail, n_eval, n_mism, n_sfail = [], [], 0, 0, 0
    with ProcessPoolExecutor(C.NCPU) as ex:
        for ne, mm, sf, nm, ns_ in ex.map(shard, jobs):
            n_eval += ne; mism += mm; sfail += sf; n_mism += nm; n_sfail += ns_
    run.log(f"frames: {n_eval} evaluations, {n_mism} model/code mismatches, {n_sfail} S failures on the code")

    # ---- other operations: single process, moderate volume ----------------------------------------
    from ttconv.time_code import SmpteTimeCode as T, ClockTime as CT
    rng = run.rng
    nother = 20000 if run.tier == "thorough" else 2500
    cmds, expect, desc = [], [], []
    for name, (rn, rd) in RATES.items():
        fps = Fraction(rn, rd); total = 24 * 3600 * rn // rd
        for _ in range(nother // 8):
            k = rng.randrange(0, total)
            # exact frame boundary (S: must be frame k) and a random rational
            x = Fraction(k) / fps
            tc = T.from_seconds(x, fps)
            cmds.append(f"S {rn} {rd} {x.numerator} {x.denominator}")
            expect.append(f"{tc.get_hours()} {tc.get_minutes()} {tc.get_seconds()} {tc.get_frames()}"); desc.append(("from_seconds", name, str(x)))
            if name in SPEC or True:
                want = T.from_frames(k, fps)
                if tc != want:
                    sfail.append((name, k, "boundary", f"from_seconds({x}) = {tc}, frame {k} is {want}")); n_sfail += 1
            y = Fraction(rng.randrange(0, 10 ** 9), rng.randrange(1, 10 ** 6))
            tc = T.from_seconds(y, fps)
            cmds.append(f"S {rn} {rd} {y.numerator} {y.denominator}")
            expect.append(f"{tc.get_hours()} {tc.get_minutes()} {tc.get_seconds()} {tc.get_frames()}"); desc.append(("from_seconds", name, str(y)))
            if name in SPEC and tc != T.from_frames(math.floor(y * fps), fps):
                sfail.append((name, str(y), "from_seconds_floor", str(tc))); n_sfail += 1
            # add_frames k and offsets
            base = T.from_frames(k, fps); add = rng.randrange(0, 5000)
            lab = (base.get_hours(), base.get_minutes(), base.get_seconds(), base.get_frames())
            off = base.to_temporal_offset()
            cmds.append(f"O {rn} {rd} {lab[0]} {lab[1]} {lab[2]} {lab[3]}")
            expect.append(None); desc.append(("offset", name, off))
            if name in SPEC and off != Fraction(k) / fps:
                sfail.append((name, k, "offset", f"{off} != {k}/{fps}")); n_sfail += 1
            b2 = T.from_frames(k, fps); b2.add_frames(add)
            cmds.append(f"A {rn} {rd} {add} {lab[0]} {lab[1]} {lab[2]} {lab[3]}")
            expect.append(f"{b2.get_hours()} {b2.get_minutes()} {b2.get_seconds()} {b2.get_frames()}"); desc.append(("add_frames", name, (k, add)))
            if name in SPEC and add <= 40:
                b3 = T.from_frames(k, fps)
                for _i in range(add): b3.add_frames(1)
                if b3 != b2: sfail.append((name, k, "add_frames", f"+{add} != {add} x +1")); n_sfail += 1
            # printing
            cmds.append(f"P {rn} {rd} {lab[0]} {lab[1]} {lab[2]} {lab[3]}")
            expect.append(",".join(str(ord(c)) for c in str(base))); desc.append(("print", name, lab))
    # ClockTime on Fractions: dense grid k/4000 (strided), random rationals
    clock_inputs = []
    stride = 1 if run.tier == "thorough" else 397
    limit = 4 * 10 ** 6 if run.tier == "thorough" else 4 * 10 ** 6
    clock_inputs += [Fraction(k, 4000) for k in range(rng.randrange(0, stride), limit, stride)] if run.tier == "quick" else \
                    [Fraction(k, 4000) for k in range(0, limit, 7)]
    clock_inputs += [Fraction(rng.randrange(0, 360000 * 10 ** 6), rng.randrange(1, 10 ** 6)) for _ in range(nother)]
    clock_inputs += [Fraction(2 * k + 1, 2000) for k in range(0, 3000)]          # exact ties
    # carries: just below every kind of field boundary (second, minute, hour, 100 h), at sub-millisecond distances
    for base in [rng.randrange(1, 360000) for _ in range(300)] + [60 * m for m in range(1, 130)] + [3600 * h for h in range(1, 101)]:
        for k in (1, 4, 5, 6, 9, 10, 11):
            clock_inputs.append(Fraction(base) - Fraction(k, 10000))
            clock_inputs.append(Fraction(base) + Fraction(k, 10000))
    prev = None
    for x in sorted(clock_inputs):
        ct = CT.from_seconds(x)
        ms = ((ct.get_hours() * 60 + ct.get_minutes()) * 60 + ct.get_seconds()) * 1000 + ct.get_milliseconds()
        cmds.append(f"C {x.numerator} {x.denominator}")
        expect.append(f"{ct.get_hours()} {ct.get_minutes()} {ct.get_seconds()} {ct.get_milliseconds()} " + ",".join(str(ord(c)) for c in str(ct)))
        desc.append(("clock", "", str(x)))
        if abs(Fraction(ms, 1000) - x) > Fraction(1, 2000): sfail.append(("clock", str(x), "nearest", str(ct))); n_sfail += 1
        if not (0 <= ct.get_minutes() < 60 and 0 <= ct.get_seconds() < 60 and 0 <= ct.get_milliseconds() < 1000):
            sfail.append(("clock", str(x), "fields", str(ct))); n_sfail += 1
        if prev is not None and ms < prev: sfail.append(("clock", str(x), "monotone", str(ct))); n_sfail += 1
        prev = ms
    # ClockTime on floats: S only (CPython's round(x, 3) is not transcribed)
    prev = None; nfl = 0
    for x in sorted(rng.random() * 360000 for _ in range(nother)):
        ct = CT.from_seconds(x); nfl += 1
        ms = ((ct.get_hours() * 60 + ct.get_minutes()) * 60 + ct.get_seconds()) * 1000 + ct.get_milliseconds()
        if abs(Fraction(ms, 1000) - Fraction(x)) > Fraction(1, 2000) + Fraction(1, 10 ** 9):
            sfail.append(("clock-float", repr(x), "nearest", str(ct))); n_sfail += 1
        if not (0 <= ct.get_minutes() < 60 and 0 <= ct.get_seconds() < 60 and 0 <= ct.get_milliseconds() < 1000):
            sfail.append(("clock-float", repr(x), "fields", str(ct))); n_sfail += 1
        if prev is not None and ms < prev: sfail.append(("clock-float", repr(x), "monotone", str(ct))); n_sfail += 1
        prev = ms
    # parse of printed and perturbed strings
    for name, (rn, rd) in RATES.items():
        fps = Fraction(rn, rd)
        for _ in range(nother // 16):
            k = rng.randrange(0, 24 * 3600 * rn // rd)
            s = str(T.from_frames(k, fps))
            if rng.random() < 0.5:
                i = rng.randrange(len(s)); s = s[:i] + rng.choice(":;.,x 0123456789\n") + s[i + 1:]
            if rng.random() < 0.2: s = s[:rng.randrange(len(s))]
            if rng.random() < 0.2: s = s + rng.choice(["", "x", ":00", "9"])
            try:
                p = T.parse(s, fps)
                e = f"{p.get_hours()} {p.get_minutes()} {p.get_seconds()} {p.get_frames()} {p.get_frame_rate().numerator} {p.get_frame_rate().denominator}"
            except ValueError:
                e = "NONE"
            cmds.append(f"R {rn} {rd} " + ",".join(str(ord(c)) for c in s)); expect.append(e); desc.append(("parse", name, s))
    out = driver(cmds)
    n_other = len(cmds) + nfl
    for c, e, d, o in zip(cmds, expect, desc, out):
        if d[0] == "offset":
            a, b = map(int, o.split());
            if Fraction(a, b) != d[2]: mism.append(("offset", c, str(d[2]), o, "")); n_mism += 1
        elif e != o:
            mism.append((d[0], c, e, o, str(d[2]))); n_mism += 1
    if len(out) != len(cmds): mism.append(("driver-output-short", len(out), len(cmds), "", "")); n_mism += 1
    run.log(f"other operations: {n_other} evaluations; totals: {n_mism} mismatches, {n_sfail} S failures")

    # ---- verdict -----------------------------------------------------------------------------------
    unlisted = []
    for f in sfail:
        if f[0] == "24000/1001" and f[2] in ("roundtrip",):
            run.known("roundtrip-23976", f"first failing frame count seen: {f[1]}")
        else:
            unlisted.append(f)
    # recorded finding witness must still fail on the code, otherwise say so
    fps = Fraction(24000, 1001)
    if T.from_frames(15826, fps).to_frames() != 15826:
        run.known("roundtrip-23976", "witness n=15826")
    else:
        run.cov["stale_findings"] = ["roundtrip-23976: witness no longer fails"]
    if unlisted:
        f = unlisted[0]
        run.violation(f"{f[2]} fails on the implementation at rate {f[0]}, input {f[1]}: {f[3]}",
                      dict(kind="S-on-code", clause=f[2], rate=f[0], input=f[1], detail=f[3], others=unlisted[1:10]))
    # mismatches at 24000/1001 are still mismatches (M transcribes the code there too)
    what = []; broken = None
    if not ok:
        broken = "coq/Proofs/C12"; what.append("proofs about the hand-written model no longer compile: " + coq_error(log))
    elif trans_errors:
        pass                                             # reported above; nothing further can be compiled
    elif not ok_src:
        broken = "coq/Proofs/C12/SrcRefines.v"
        what.append("refinement coq/Proofs/C12/SrcRefines.v (model regenerated from ttconv/time_code.py = hand-written Model/TimeCode.v) "
                    "no longer compiles, so the theorems of coq/Properties/C12.v are not re-established against the current source: " + coq_error(log_src))
    elif not thm_ok:
        broken = "coq/Properties/C12.v"; what.append("theorems of coq/Properties/C12.v no longer check: " + getattr(run, "proof_log", "")[-600:])
    if src_bad: what.append(f"generated model (harness/pytrans.py over Base/PyNum.v) disagrees with the code under vm_compute on {len(src_bad)} inputs, first: {src_bad[0]}")
    if n_mism: what.append(f"correspondence Model/TimeCode.v vs time_code.py disagrees on {n_mism} inputs, first {mism[0]}")
    hint = None
    if what and not unlisted and broken == "coq/Proofs/C12/SrcRefines.v" and not n_mism:
        hint = odd_rate_probe(rng)
        what.append("no input of the property's domain (8 rates) fails S or the correspondence; " +
                    ("outside it the code now differs from the hand-written model: " + hint if hint else
                     "no difference between code and hand-written model found at 12 other rates either (the refinement proof may be too brittle for this refactoring)"))
    if what and not unlisted:
        run.violation("; ".join(what), dict(kind="broken-tie", proofs_ok=proofs_ok, theorem_file=broken or "coq/Properties/C12.v", difference_outside_domain=hint,
                                            correspondence="extracted Model/TimeCode.v vs ttconv/time_code.py",
                                            generated_vs_code=src_bad[:10], first_mismatches=mism[:10]), found_input=False)
    elif what:
        run.log("also: " + "; ".join(what))
    run.cov["source_tie"] = dict(
        translator="harness/pytrans.py -> coq/Gen/TimeCodeSrc.v (regenerated on this run)" if not trans_errors else "FAILED: " + "; ".join(trans_errors),
        refinement_compiles=bool(ok_src), generated_vs_code_evaluations=n_srcev, generated_vs_code_disagreements=src_bad[:10],
        tied_by_translation_and_refinement_theorem={k: v for k, v in REFINEMENT.items()} if ok_src else {},
        tied_by_differential_runs_only=DIFFERENTIAL_ONLY + ([] if ok_src else ["(refinement not established on this run: every function)"]),
        binary64_sites_modelled_exactly=tinfo.get("float_sites", []), outside_exact_model=tinfo.get("unsupported", []), notes=tinfo.get("notes", []))
    run.cov.update(evaluations=n_eval + n_other + n_srcev, distinct_nontrivial=n_eval + n_other,
                   rule="frame counts per rate (quick: +-3 around every minute/10-minute/hour carry in real and nominal counts, "
                        "a stride-101 sweep and 2000 random counts up to 5 days; thorough: every count of 24 h), each through "
                        "from_frames/to_frames/str/parse and its successor; random exact frame boundaries and rationals through "
                        "from_seconds; add_frames; offsets; ClockTime on a k/4000 grid, exact ties, random rationals (model+S) "
                        "and random floats (S only); perturbed strings through parse. Every input is distinct by construction "
                        "(sets) and non-trivial in that it exercises arithmetic on a distinct count.",
                   exhaustive=(run.tier == "thorough"),
                   samples=[dict(rate="30000/1001", n=1800, label="00:01:00;02"), dict(rate=f[0], input=str(f[1])) if (sfail and (f := sfail[0])) else dict(rate="25", boundary="29/25 -> frame 29")],
                   frames_per_rate={k: len(v) for k, v in sets.items()}, model_code_mismatches=n_mism, s_failures_on_code=n_sfail)
    run.assumptions += ["float(secs)*rate and int/int true division in time_code.py are exact below 2^53 (checked by the exhaustive sweep); "
                        "Base/PyNum.v models them as exact rational operations at the places listed in coverage.source_tie",
                        "ZeroDivisionError is not modelled (x / 0 = 0 in Base/PyNum.v and in Z): no divisor is 0 for frame rates >= 9/1001",
                        "SmpteTimeCode / ClockTime objects are immutable records in the generated model; add_frames returns the updated record",
                        "ClockTime.from_seconds on float arguments uses CPython round(x,3): compared with S only"]
    return run.finish(["coq/extract: ExtrOcamlBasic directives only; Z kept inductive; driver.ml converts decimal text",
                       "harness/pytrans.py (fail-closed ast -> Gallina translator) and the reading of Python numerics in coq/Base/PyNum.v "
                       "(exercised against CPython by vm_compute on every run)"])


if __name__ == "__main__":
    sys.exit(main())
