"""Witnesses of the former C15 findings (findings_proposed/C15.txt): each returns a string while the
defect is present on the real ttconv.model objects and None once it is repaired (all are repaired: they
must pass).  The same histories are replayed on the model in coq/Findings/C15.v."""
from witnesses import witness


@witness("C15", "put-region-replace")
def _():
    import ttconv.model as m
    d = m.ContentDocument(); r0 = m.Region("r1", d); r1 = m.Region("r1", d); p = m.P(d)
    d.put_region(r0); p.set_region(r0); d.put_region(r1)
    if p.get_region() is not None and p.get_region() is not d.get_region("r1"):
        return "element references a region object that is no longer the one registered under its id"


@witness("C15", "remove-region-outside-body")
def _():
    import ttconv.model as m
    d = m.ContentDocument(); r0 = m.Region("r1", d); p = m.P(d)
    d.put_region(r0); p.set_region(r0); d.remove_region("r1")
    if p.get_region() is not None and not d.has_region("r1"):
        return "element (not under the body) still references the removed region"


@witness("C15", "set-region-by-id")
def _():
    import ttconv.model as m
    d = m.ContentDocument(); r0 = m.Region("r1", d); r1 = m.Region("r1", d); p = m.P(d)
    d.put_region(r0)
    try:
        p.set_region(r1)
    except Exception:
        return None
    if p.get_region() is not d.get_region("r1"):
        return "set_region accepted a region object that is not the registered one"


@witness("C15", "set-doc-none-half-applied")
def _():
    import ttconv.model as m
    d = m.ContentDocument(); p = m.P(d); s = m.Span(d); p.push_child(s)
    try:
        p.set_doc(None)
    except RuntimeError:
        if p.get_doc() is None and s.get_doc() is d:
            return "rejected set_doc(None) left the root detached above an attached child"
    return None


@witness("C15", "set-doc-on-child")
def _():
    import ttconv.model as m
    d = m.ContentDocument(); p = m.P(); s = m.Span(); p.push_child(s)
    try:
        s.set_doc(d)
    except Exception:
        return None
    if s.get_doc() is not p.get_doc():
        return "a child was attached to a document while its parent is detached"


@witness("C15", "push-children-half-applied")
def _():
    import ttconv.model as m
    d = m.ContentDocument(); r = m.Ruby(d); rbc = m.Rbc(d); rtc = m.Rtc()
    try:
        r.push_children([rbc, rtc])
    except Exception:
        ks = [type(x).__name__ for x in r]
        if ks == ["Rbc"]:
            return "rejected Ruby.push_children left children ['Rbc']"
    return None


@witness("C15", "rtc-lone-rp")
def _():
    import ttconv.model as m
    d = m.ContentDocument(); rtc = m.Rtc(d); rp = m.Rp(d)
    try:
        rtc.push_child(rp)
    except Exception:
        return None
    if [type(x).__name__ for x in rtc] == ["Rp"]:
        return "Rtc has children ['Rp'], which matches neither Rt* nor Rp Rt* Rp"


@witness("C15", "rtc-push-children-appends")
def _():
    import ttconv.model as m
    d = m.ContentDocument(); rtc = m.Rtc(d); rtc.push_child(m.Rt(d))
    try:
        rtc.push_children([m.Rp(d), m.Rt(d), m.Rp(d)])
    except Exception:
        return None
    ks = [type(x).__name__ for x in rtc]
    if ks == ["Rt", "Rp", "Rt", "Rp"]:
        return "Rtc has children " + str(ks)


@witness("C15", "copy-to-self-never-returns")
def _():
    import signal
    import ttconv.model as m, ttconv.style_properties as s
    d = m.ContentDocument(); r = m.Region("r1", d)
    r.add_animation_step(m.DiscreteAnimationStep(s.StyleProperties.Color, None, None, s.NamedColors.red.value))
    def on_alarm(*_): raise TimeoutError()
    old = signal.signal(signal.SIGALRM, on_alarm); signal.setitimer(signal.ITIMER_REAL, 0.3)
    try:
        r.copy_to(r)
    except (TimeoutError, MemoryError):
        return "Region.copy_to(self) does not return (the list of animation steps grows while it is iterated)"
    finally:
        signal.setitimer(signal.ITIMER_REAL, 0); signal.signal(signal.SIGALRM, old)
    if len(list(r.iter_animation_steps())) != 1:
        return "Region.copy_to(self) changed its own animation steps"
