"""C03 witnesses.  textemphasis-auto-parent-writing-mode: tts:textEmphasis with style auto on a content element of a
vertical region must compute to filled sesame (TTML2 10.2.37: auto = filled sesame when the writing mode is vertical).
Before the repair (StyleProcessors.WritingMode.inherit carries the region's writing mode down) _get_writing_mode read
the immediate parent's own tts:writingMode (its initial value lrtb) and the result was filled circle."""
from witnesses import witness


@witness("C03", "textemphasis-auto-parent-writing-mode")
def _():
    import ttconv.model as m, ttconv.style_properties as s, ttconv.isd as I
    SP = s.StyleProperties
    for wm, want in ((s.WritingModeType.tbrl, s.TextEmphasisType.Style.filled_sesame), (s.WritingModeType.tblr, s.TextEmphasisType.Style.filled_sesame),
                     (s.WritingModeType.lrtb, s.TextEmphasisType.Style.filled_circle)):
        d = m.ContentDocument()
        r = m.Region("r1", d); r.set_style(SP.WritingMode, wm); d.put_region(r)
        b = m.Body(d); d.set_body(b)
        dv = m.Div(d); b.push_child(dv)
        p = m.P(d); p.set_region(r); dv.push_child(p)
        sp = m.Span(d); p.push_child(sp)
        # a writing mode on a content element is not applicable and must not matter
        p.set_style(SP.WritingMode, s.WritingModeType.lrtb if wm is not s.WritingModeType.lrtb else s.WritingModeType.tbrl)
        sp.set_style(SP.TextEmphasis, s.TextEmphasisType(style=s.TextEmphasisType.Style.auto, position=s.TextEmphasisType.Position.outside))
        sp.push_child(m.Text(d, "x"))
        isd = I.ISD.from_model(d, 0)
        got = [e.get_style(SP.TextEmphasis).style for reg in isd.iter_regions() for e in reg.dfs_iterator() if isinstance(e, m.Span)]
        if got != [want]: return f"region writing mode {wm.value}: emphasis auto computes to {got}, expected [{want}]"
        for reg in isd.iter_regions():
            for e in reg.dfs_iterator():
                if not isinstance(e, m.Region) and e.get_style(SP.WritingMode) is not None:
                    return "tts:writingMode left on a content element of the snapshot"
