"""C08 — the SCC reader shows what a CEA-608 decoder displays, when it displays it.

Theorems: coq/Properties/C08.v (stamps on the frame grid and inside the line's window, channel filter,
doubled control codes) about M = coq/Model/SccReader.v.  Ties: M's document equals
ttconv.scc.reader.to_model's on generated streams (oracle 1, evaluated inside Coq); the reference CEA-608
decoder S = coq/Spec/Cea608Screen.v is compared with the implementation's document at every stable frame
(oracle 2, inside Coq, two granularities S_word / S_line)."""
import os, re, sys, json
from fractions import Fraction
import common as C

# ------------------------------------------------------------------------------------------------
# canonical form of the implementation's output
# ------------------------------------------------------------------------------------------------
KIND = {"region": 0, "rollup": 1, "paint": 2, "pop": 3}
ALIGN = None


class Noncanonical(Exception):
    """the document has a shape the canonicaliser does not know: a harness problem, reported as such"""


def _region_ident(rid):
    m = re.fullmatch(r"(region|rollup|paint|pop)(\d+)", rid or "")
    if not m: raise Noncanonical(f"region id {rid!r}")
    return KIND[m.group(1)], int(m.group(2))


def _int(v, what):
    if isinstance(v, bool) or not (isinstance(v, int) or (isinstance(v, float) and v == int(v))):
        raise Noncanonical(f"{what} is not integral: {v!r}")
    return int(v)


def canon_doc(doc):
    """ContentDocument -> ('ok', regions, paragraphs)"""
    import ttconv.model as m
    import ttconv.style_properties as s
    from gen_tables import packcolor
    SP = s.StyleProperties
    cr = doc.get_cell_resolution()
    if (cr.rows, cr.columns) != (19, 40): raise Noncanonical(f"cell resolution {cr}")
    aa = doc.get_active_area()
    if aa is None or (aa.left_offset, aa.top_offset, aa.width, aa.height) != (4 / 40, 2 / 19, 32 / 40, 15 / 19):
        raise Noncanonical(f"active area {aa}")
    regions = []
    for r in doc.iter_regions():
        kind, num = _region_ident(r.get_id())
        styles = {p: r.get_style(p) for p in r.iter_styles()}
        if set(styles) != {SP.Origin, SP.Extent, SP.DisplayAlign, SP.ShowBackground}: raise Noncanonical(f"region styles {set(styles)}")
        o, e = styles[SP.Origin], styles[SP.Extent]
        for ln in (o.x, o.y, e.width, e.height):
            if ln.units is not s.LengthType.Units.pct: raise Noncanonical("region units")
        if styles[SP.ShowBackground] is not s.ShowBackgroundType.whenActive: raise Noncanonical("showBackground")
        da = styles[SP.DisplayAlign]
        if da not in (s.DisplayAlignType.before, s.DisplayAlignType.after): raise Noncanonical("displayAlign")
        if r.get_begin() is not None or r.get_end() is not None or list(r): raise Noncanonical("region timing/children")
        regions.append((kind, num, _int(o.x.value, "origin x"), _int(o.y.value, "origin y"),
                        _int(e.width.value, "extent w"), _int(e.height.value, "extent h"), da is s.DisplayAlignType.after))
    body = doc.get_body()
    if body is None: raise Noncanonical("no body")
    bstyles = {p for p in body.iter_styles()}
    if bstyles != {SP.LineHeight, SP.FontFamily, SP.LinePadding}: raise Noncanonical(f"body styles {bstyles}")
    divs = list(body)
    if len(divs) != 1 or not isinstance(divs[0], m.Div): raise Noncanonical("body children")
    paras = []
    ta = {s.TextAlignType.start: 0, s.TextAlignType.center: 1, s.TextAlignType.end: 2}
    for p in divs[0]:
        if not isinstance(p, m.P): raise Noncanonical("div child")
        pid = p.get_id()
        if pid == "" or pid is None: idn = None
        else:
            mm = re.fullmatch(r"caption(-?\d+)", pid)
            if not mm: raise Noncanonical(f"p id {pid!r}")
            idn = int(mm.group(1))
        ps = {q: p.get_style(q) for q in p.iter_styles()}
        if not set(ps) <= {SP.TextAlign}: raise Noncanonical(f"p styles {set(ps)}")
        al = ta[ps[SP.TextAlign]] if SP.TextAlign in ps else None
        reg = p.get_region()
        if reg is None or doc.get_region(reg.get_id()) is not reg: raise Noncanonical("p region")
        children = []
        for ch in p:
            if isinstance(ch, m.Br):
                children.append(("br",))
            elif isinstance(ch, m.Span):
                if ch.get_end() is not None: raise Noncanonical("span end")
                kids = list(ch)
                if len(kids) != 1 or not isinstance(kids[0], m.Text): raise Noncanonical("span children")
                st = {q: ch.get_style(q) for q in ch.iter_styles()}
                if not set(st) <= {SP.Color, SP.FontStyle, SP.TextDecoration, SP.BackgroundColor}: raise Noncanonical(f"span styles {set(st)}")
                if SP.FontStyle in st and st[SP.FontStyle] is not s.FontStyleType.italic: raise Noncanonical("font style")
                if SP.TextDecoration in st:
                    td = st[SP.TextDecoration]
                    if not (td.underline is True and td.line_through is None and td.overline is None): raise Noncanonical(f"text decoration {td}")
                children.append(("span", ch.get_begin(), packcolor(st.get(SP.Color)), SP.FontStyle in st, SP.TextDecoration in st,
                                 packcolor(st.get(SP.BackgroundColor)), kids[0].get_text()))
            else:
                raise Noncanonical(f"p child {type(ch).__name__}")
        paras.append((idn, p.get_begin(), p.get_end(), _region_ident(reg.get_id()), al, children))
    return ("ok", regions, paras)


TALIGN = ["auto", "left", "center", "right"]


def run_impl(scc, talign=0):
    """the implementation on one file: canonical document or ('err', exception class name)"""
    import ttconv.scc.reader as reader
    from ttconv.scc.config import SccReaderConfiguration, TextAlignment
    cfg = None if talign is None else SccReaderConfiguration(text_align=TextAlignment.from_value(TALIGN[talign]))
    try:
        doc = reader.to_model(scc, cfg)
    except RecursionError:
        raise
    except Exception as e:
        return ("err", type(e).__name__)
    return canon_doc(doc)


# ------------------------------------------------------------------------------------------------
# Gallina literals
# ------------------------------------------------------------------------------------------------
def lit_q(x):
    x = Fraction(x)
    return f"(qz {C.z(x.numerator)} {x.denominator})"

def lit_text(s):
    return "[" + ";".join(str(ord(c)) for c in s) + "]"

def lit_doc(d):
    if d[0] == "err": return "DocErr"
    _, regions, paras = d
    rs = "[" + "; ".join(f"mkR {k} {n} {C.z(ox)} {C.z(oy)} {C.z(ew)} {C.z(eh)} {C.boolean(after)}" for k, n, ox, oy, ew, eh, after in regions) + "]"
    ps = []
    for idn, b, e, (rk, rn), al, children in paras:
        cs = []
        for ch in children:
            if ch[0] == "br": cs.append("QBr")
            else:
                _, sb, col, ita, und, bg, tx = ch
                cs.append(f"QSpan {C.opt(sb, lit_q)} (mkTS {C.z(col)} {C.boolean(ita)} {C.boolean(und)} {C.z(bg)}) {lit_text(tx)}")
        ps.append(f"mkPQ {C.opt(idn, C.z)} {C.opt(b, lit_q)} {C.opt(e, lit_q)} ({rk}, {rn}) {C.opt(al, C.z)} [" + "; ".join(cs) + "]")
    return f"(Doc {rs} [" + ";\n   ".join(ps) + "])"

def lit_line(s):
    """a line of the file as a Coq string (the generated files are ASCII)"""
    if all(0 < ord(c) < 128 for c in s): return C.coq_string(s)
    raise ValueError("non-ASCII line")

def lit_case(talign, scc, d):
    lines = scc.splitlines()
    return f"mkCase {talign} [" + "; ".join(lit_line(l) for l in lines) + "]%string\n  " + lit_doc(d)


# ------------------------------------------------------------------------------------------------
# seeds: the literal streams of the repository's own test file
# ------------------------------------------------------------------------------------------------
def test_file_streams():
    p = C.REPO + "/src/test/python/test_scc_reader.py"
    try:
        src = open(p, encoding="utf-8").read()
    except OSError:
        return []
    out = []
    for m in re.finditer(r'scc_content = """(.*?)"""', src, flags=re.S):
        body = m.group(1)
        if body.startswith("\\\n"): body = body[2:]
        out.append(body)
    return out


# ------------------------------------------------------------------------------------------------
# CEA-608 words (channel 1, field 1 unless said otherwise)
# ------------------------------------------------------------------------------------------------
PAC_OF_ROW = {1: (0x11, 0), 2: (0x11, 1), 3: (0x12, 0), 4: (0x12, 1), 5: (0x15, 0), 6: (0x15, 1), 7: (0x16, 0), 8: (0x16, 1),
              9: (0x17, 0), 10: (0x17, 1), 11: (0x10, 0), 12: (0x13, 0), 13: (0x13, 1), 14: (0x14, 0), 15: (0x14, 1)}
RCL, BS, AOF, AON, DER, RU2, RU3, RU4, FON, RDC, TR, RTD, EDM, CR, ENM, EOC = [0x1420 + i for i in range(16)]
TO1, TO2, TO3 = 0x1721, 0x1722, 0x1723

def w_pac(row, attr, ch2=False):
    """attr 0x00-0x0F: colour/italics (+ underline bit), 0x10-0x1F: indent 4*((attr-0x10)//2) (+ underline bit)"""
    b1, hi = PAC_OF_ROW[row]
    return ((b1 | (8 if ch2 else 0)) << 8) | (0x40 + (0x20 if hi else 0) + attr)

def w_mid(attr): return 0x1120 + attr          # 0..13 colours (+underline), 14/15 italics
def w_special(k): return 0x1130 + k
def w_ext(k): return (0x1220 if k < 32 else 0x1300) + k   # k in 0..63
def w_ch2(w): return w | 0x0800

def odd_parity(b):
    return b | (0x80 if bin(b).count("1") % 2 == 0 else 0)

def hexword(w, parity):
    b1, b2 = w >> 8, w & 0xFF
    if parity: b1, b2 = odd_parity(b1), odd_parity(b2)
    return "%02x%02x" % (b1, b2)

def text_words(bs):
    """bytes (0x20..0x7F) -> words, an odd tail padded with a null second byte"""
    bs = list(bs)
    if len(bs) % 2: bs.append(0)
    return [(bs[i] << 8) | bs[i + 1] for i in range(0, len(bs), 2)]

# ---- time codes
def label_of_frame(n, df):
    """SMPTE ST 12-1 address of frame count n (the harness' own arithmetic)"""
    if df:
        d, m = divmod(n, 17982)
        n = n + 18 * d + (2 * ((m - 2) // 1798) if m >= 2 else 0)
    return (n // 108000, (n // 1800) % 60, (n // 30) % 60, n % 30)

def tc_text(lab, df):
    return "%02d:%02d:%02d%s%02d" % (lab[0], lab[1], lab[2], ";" if df else ":", lab[3])


class Stream:
    """lines: list of (frame count, [words]); one rate per stream"""
    def __init__(self, kind, df, parity, lines, judged=True, raw=None):
        self.kind, self.df, self.parity, self.lines, self.judged, self.raw = kind, df, parity, lines, judged, raw
    def labels(self):
        return [label_of_frame(t, self.df) for t, _ in self.lines]
    def scc(self):
        if self.raw is not None: return self.raw
        out = ["Scenarist_SCC V1.0", ""]
        for (t, ws), lab in zip(self.lines, self.labels()):
            out.append(tc_text(lab, self.df) + "\t" + " ".join(hexword(w, self.parity) for w in ws)); out.append("")
        return "\n".join(out)
    def slines(self):
        return [(self.df, lab, ws) for (t, ws), lab in zip(self.lines, self.labels())]


# ------------------------------------------------------------------------------------------------
# protocol grammars
# ------------------------------------------------------------------------------------------------
STD = [b for b in range(0x21, 0x80)]
WORDS = ["HELLO", "WORLD", "Test", "captions", "a", "I", "12", "(horn)", "ok?", "yes,", "No.", "[music]", "it's", "x*y", "\\o/", "{z}"]

class Gen:
    def __init__(self, rng, dbl, pad_p=0.15, ch2_p=0.1, reuse_p=0.04):
        self.rng, self.dbl, self.pad_p, self.ch2_p, self.reuse_p = rng, dbl, pad_p, ch2_p, reuse_p
        self.disp, self.buf = set(), set()
        self.mode = "pop"      # the decoder starts in pop-on mode

    def code(self, w):
        """a control-range word, doubled according to the stream's convention, with optional channel-2 block before it
        and null padding after it"""
        r = self.rng; out = []
        if r.random() < self.ch2_p:
            out += self.ch2_block()
        d = self.dbl if self.dbl in (0, 1) else (r.random() < 0.5)
        out += [w, w] if d else [w]
        while r.random() < self.pad_p: out.append(0)
        return out

    def ch2_block(self):
        r = self.rng
        out = [w_ch2(r.choice([RCL, RDC, RU2, EDM, ENM, EOC, CR, w_pac(r.randint(1, 15), r.randrange(32)), w_mid(r.randrange(16))]))]
        if r.random() < 0.5: out.append(out[0])
        if r.random() < 0.6: out += text_words([ord(c) for c in r.choice(["(CC2)", "xx", "other"])])
        if r.random() < 0.3: out.append(w_ch2(r.choice([EDM, EOC, CR])))
        return out

    def text_run(self, maxlen, mid=True, allow_edge_space=False):
        """words of a run of text of at most maxlen columns: standard / special / extended characters, mid-row codes"""
        r = self.rng; out = []; pend = []; n = 0
        def flush():
            nonlocal pend
            out.extend(text_words(pend)); pend = []
        target = r.randint(1, max(1, maxlen))
        first = True
        while n < target:
            k = r.random()
            if k < 0.70 or first:
                wd = r.choice(WORDS) if r.random() < 0.7 else "".join(chr(r.choice(STD)) for _ in range(r.randint(1, 6)))
                if not first and n + 1 < target: pend.append(0x20); n += 1
                for ch in wd:
                    if n >= target: break
                    pend.append(ord(ch)); n += 1
            elif k < 0.80:
                flush(); out += self.code(w_special(r.randrange(16))); n += 1
            elif k < 0.90 and n + 1 <= target:
                pend.append(ord(r.choice("AEOUaeou-'\"")))
                flush(); out += self.code(w_ext(r.randrange(64))); n += 1
            elif mid and n + 2 <= target:
                flush(); out += self.code(w_mid(r.randrange(16))); n += 1
                pend.append(ord(r.choice("abcXYZ"))); n += 1
            first = False
        flush()
        return out

    def row_words(self, row, mid=True):
        r = self.rng
        if r.random() < 0.6:
            ind = r.randrange(7); attr = 0x10 + 2 * ind + (r.random() < 0.15); col = 4 * ind
        else:
            attr = r.randrange(16); col = 0
        out = self.code(w_pac(row, attr))
        if r.random() < 0.35:
            t = r.randint(1, 3); out += self.code(0x1720 + t); col += t
        out += self.text_run(min(30 - col, r.choice([6, 12, 20, 30 - col])), mid)
        return out

    # The generator keeps track of which rows of the displayed / non-displayed memory hold text, so that a PAC
    # normally addresses a blank row (what captioning encoders do); with probability `reuse_p` it does not care.
    def pick_rows(self, n, occupied):
        r = self.rng
        free = [x for x in range(1, 16) if x not in occupied]
        if r.random() < self.reuse_p or len(free) < n:
            r0 = r.randint(1, 15 - n + 1)
            return list(range(r0, r0 + n)) if r.random() < 0.8 else sorted(r.sample(range(1, 16), n))
        runs = [x for x in free if all(x + k in free for k in range(n))]
        if runs and r.random() < 0.8:
            r0 = r.choice(runs); return list(range(r0, r0 + n))
        return sorted(r.sample(free, n))

    # ---- pop-on
    def popon(self, t0, ncap, enm_p=0.8):
        r = self.rng; lines = []; t = t0
        for _ in range(ncap):
            ws = self.code(RCL) if (r.random() < 0.9 or self.mode != "pop") else []
            self.mode = "pop"
            nrows = r.randint(1, 4)
            if r.random() < enm_p or len(self.buf) > 15 - nrows:
                ws += self.code(ENM); self.buf = set()
            rows = self.pick_rows(nrows, self.buf)
            for row in rows: ws += self.row_words(row)
            self.buf |= set(rows)
            if r.random() < 0.4: ws += self.code(EDM); self.disp = set()
            ws += self.code(EOC); self.disp, self.buf = self.buf, self.disp
            lines.append((t, ws)); t += len(ws) + r.randint(3, 50)
            if r.random() < 0.6:
                ws = self.code(EDM); self.disp = set(); lines.append((t, ws)); t += len(ws) + r.randint(3, 30)
        return lines, t

    # ---- roll-up
    def rollup(self, t0, nlines):
        r = self.rng; lines = []; t = t0
        depth = r.choice([RU2, RU3, RU4]); base = 15 if r.random() < 0.7 else r.randint(4, 15)
        erased = True; self.mode = "roll"
        for i in range(nlines):
            ws = []
            if i == 0 or r.random() < 0.5 or (erased and r.random() >= self.reuse_p): ws += self.code(depth)
            ws += self.code(CR)
            col = 0
            if r.random() < 0.9 or i == 0:
                if r.random() < 0.8:
                    ind = r.randrange(4); attr = 0x10 + 2 * ind; col = 4 * ind
                else:
                    attr = r.randrange(16)
                ws += self.code(w_pac(base, attr))
            ws += self.text_run(min(30 - col, r.choice([8, 16, 28])), mid=r.random() < 0.5)
            erased = False
            lines.append((t, ws)); t += len(ws) + r.randint(3, 50)
            if r.random() < 0.1:
                ws = self.code(EDM); erased = True; lines.append((t, ws)); t += len(ws) + r.randint(3, 30)
        self.disp = set(range(1, 16)); self.buf = set()
        return lines, t

    # ---- paint-on
    def painton(self, t0, ncap):
        r = self.rng; lines = []; t = t0
        for _ in range(ncap):
            ws = self.code(RDC); self.mode = "paint"
            nrows = r.randint(1, 3)
            if len(self.disp) > 15 - nrows:
                ws = self.code(EDM) + ws; self.disp = set()
            rows = self.pick_rows(nrows, self.disp)
            for row in rows:
                ws += self.row_words(row, mid=r.random() < 0.4)
                self.disp.add(row)
                if r.random() < 0.15: ws += self.code(BS)
                if r.random() < 0.1: ws += self.code(DER)
                if r.random() < 0.3:
                    lines.append((t, ws)); t += len(ws) + r.randint(3, 30); ws = []
            if ws: lines.append((t, ws)); t += len(ws) + r.randint(3, 50)
            if r.random() < 0.8:
                ws = self.code(EDM); self.disp = set(); lines.append((t, ws)); t += len(ws) + r.randint(3, 30)
        return lines, t

    def clear_all(self, t):
        """between segments of different modes: erase both memories"""
        r = self.rng
        ws = self.code(EDM) + self.code(ENM); self.disp = set(); self.buf = set()
        return [(t, ws)], t + len(ws) + r.randint(3, 30)


def start_frame(rng, df):
    k = rng.random()
    if k < 0.5: return rng.randint(0, 3000)
    if k < 0.8:
        # near a minute / ten-minute boundary (where drop-frame counting skips addresses)
        return max(0, rng.randint(1, 200) * 1798 - rng.randint(0, 120)) if df else max(0, rng.randint(1, 200) * 1800 - rng.randint(0, 120))
    return rng.randint(0, 24 * 107892 - 5000)


def gen_protocol(rng, kind=None):
    """one stream following one of the three protocols (or a sequence of them)"""
    kind = kind or rng.choice(["popon", "popon", "rollup", "painton", "mixed"])
    df = rng.random() < 0.5
    dbl = rng.choice([0, 0, 1, 1, 2])
    g = Gen(rng, dbl, pad_p=rng.choice([0, 0.1, 0.3]), ch2_p=rng.choice([0, 0, 0.15]))
    t = start_frame(rng, df)
    if kind == "popon": lines, _ = g.popon(t, rng.randint(1, 4), enm_p=rng.choice([1.0, 1.0, 0.5]))
    elif kind == "rollup": lines, _ = g.rollup(t, rng.randint(2, 6))
    elif kind == "painton": lines, _ = g.painton(t, rng.randint(1, 3))
    else:
        lines = []
        for i in range(rng.randint(2, 3)):
            k = rng.choice(["popon", "rollup", "painton"])
            if i > 0:
                ls, t = g.clear_all(t); lines += ls
            ls, t = (g.popon(t, rng.randint(1, 2)) if k == "popon" else g.rollup(t, rng.randint(2, 3)) if k == "rollup" else g.painton(t, 1))
            lines += ls
    st = Stream(kind, df, rng.random() < 0.7, lines); st.dbl = dbl
    return st


def gen_wild(rng):
    """words of every class in any order, both channels, field-2 and unknown codes, overlapping or unordered lines,
    mixed rates, odd labels, malformed words: judged by oracle 1 (M = code) only"""
    n_lines = rng.randint(1, 6); out = ["Scenarist_SCC V1.0", ""] if rng.random() < 0.8 else []
    t = rng.randint(0, 200000)
    for _ in range(n_lines):
        ws = []
        for _ in range(rng.randint(1, 30)):
            k = rng.random()
            if k < 0.35: w = (rng.choice(STD) << 8) | rng.choice(STD + [0, 0x20, 0x20])
            elif k < 0.50: w = w_pac(rng.randint(1, 15), rng.randrange(32))
            elif k < 0.70: w = 0x1420 + rng.randrange(16)
            elif k < 0.75: w = 0x1720 + rng.randint(1, 3)
            elif k < 0.80: w = w_mid(rng.randrange(16))
            elif k < 0.84: w = w_special(rng.randrange(16))
            elif k < 0.88: w = w_ext(rng.randrange(64))
            elif k < 0.91: w = rng.choice([0x1020 + rng.randrange(16), 0x172D, 0x172E, 0x172F])
            elif k < 0.94: w = 0
            elif k < 0.97: w = rng.randrange(0x1000, 0x2000)
            else: w = rng.randrange(0x10000) & 0x7F7F
            if rng.random() < 0.08: w = w_ch2(w) if 0x1000 <= w < 0x2000 else w
            ws.append(w)
            if 0x1000 <= w < 0x2000 and rng.random() < 0.4: ws.append(w)
        df = rng.random() < 0.3
        lab = label_of_frame(t, df) if rng.random() < 0.9 else (rng.randrange(100), rng.randrange(100), rng.randrange(100), rng.randrange(100))
        sep = ";" if df else ":"
        tc = "%02d:%02d:%02d%s%02d" % (lab[0], lab[1], lab[2], sep, lab[3])
        if rng.random() < 0.03: tc = tc.replace(":", rng.choice([".", ",", ";"]), 1)
        par = rng.random() < 0.5
        words = [hexword(w, par) for w in ws]
        if rng.random() < 0.04: words[rng.randrange(len(words))] = rng.choice(["94", "zzzz", "94200", "+123", "0x1f", "1_23", "942g"])
        if rng.random() < 0.3: words = [x.upper() for x in words]
        line = tc + "\t" + (" " if rng.random() < 0.1 else "") + " ".join(words) + (" " if rng.random() < 0.1 else "")
        if rng.random() < 0.03: line = line.replace("\t", " ", 1)
        out.append(line)
        if rng.random() < 0.8: out.append("")
        t = max(0, t + rng.randint(-20, 120))
    return Stream("wild", False, False, [], judged=False, raw="\n".join(out))


# ------------------------------------------------------------------------------------------------
# verdict of oracle 2 for one case
# ------------------------------------------------------------------------------------------------
NONE_CODE = -1000000000
T_DUP, T_PADDUP, T_LATE, T_BASE, T_ITAL, T_CLEAR, T_DER, T_SPACE, T_ABOVE, T_NEGCUR, T_CLAMP, T_ROW0, T_OVER = [1 << i for i in range(13)]
FINDING_OF_FLAG = {T_DUP: "doubled-code-no-frame", T_PADDUP: "previous-word-survives-padding",
                   T_LATE: "text-shown-from-paragraph-begin", T_BASE: "rollup-base-row-forced-15",
                   T_ITAL: "midrow-italics-resets-colour", T_CLEAR: "painton-pac-clears-row", T_DER: "der-ignored",
                   T_SPACE: "painton-space-word-unstyled", T_ABOVE: "region-above-attached",
                   T_OVER: "overwrite-keeps-element-style", T_NEGCUR: "pac-left-of-row-content", T_CLAMP: "pac-right-of-row-content", T_ROW0: "rollup-text-after-edm-row0"}
# findings whose effect on the text S does not emulate: a case on which one of them fires and no oracle accepts is
# attributed to it (the generator produces such streams rarely)
BLIND_FLAGS = T_NEGCUR | T_CLAMP | T_ROW0
DEV_FLAGS = T_PADDUP | T_BASE | T_ITAL | T_CLEAR | T_DER


def judge(codes):
    """codes = [strict, lenient(g, view) for g in 0..2 for view in 0..2, trigger flags]
    -> ('ok', []) | ('known', [finding ids]) | ('violation', first rejected frame of the strict oracle)"""
    strict, grid, flags = codes[0], codes[1:10], codes[10]
    if strict == NONE_CODE: return ("ok", [])
    for g, vw in sorted(((g, vw) for g in range(3) for vw in range(3)), key=lambda x: (x[0] + x[1], x[0])):
        if grid[3 * g + vw] != NONE_CODE: continue
        need = []
        if g == 0 and vw == 0: need.append(DEV_FLAGS)
        if g == 1: need.append(T_DUP | T_PADDUP)
        if g == 2: need.append(T_LATE)
        if vw == 1: need.append(T_SPACE | T_OVER)
        if vw == 2: need.append(T_ABOVE)
        if all(flags & n for n in need):
            adm = DEV_FLAGS | (T_DUP | T_PADDUP if g >= 1 else 0) | (T_LATE if g == 2 else 0) | (T_SPACE | T_OVER if vw >= 1 else 0) | (T_ABOVE if vw == 2 else 0)
            return ("known", [FINDING_OF_FLAG[f] for f in FINDING_OF_FLAG if flags & adm & f])
    if flags & BLIND_FLAGS:
        return ("known", [FINDING_OF_FLAG[f] for f in FINDING_OF_FLAG if flags & BLIND_FLAGS & f])
    return ("violation", strict)
