"""C08 — the SCC reader shows what a CEA-608 decoder displays, when it displays it.

Theorems: coq/Properties/C08.v (stamps on the frame grid and inside the line's window, frames per word, channel
filter, doubled control codes, no word raises, no negative time, pop-on / EDM / roll-up-depth protocol skeleton) about
M = coq/Model/SccReader.v.
Ties: M's document equals ttconv.scc.reader.to_model's on generated streams (oracle 1, evaluated inside Coq); the
reference CEA-608 decoder S = coq/Spec/Cea608Screen.v is compared with the implementation's document at every
frame around every line (oracle 2, inside Coq).  Oracle 2 per stream: the property as stated (the standard, one
window per display-changing word, rows + characters + attributes); if that rejects the document, the same with the
recorded deviations admitted, at granularities S_word / S_word with uncounted second copies / S_line and views
full / characters / row order — a weaker oracle is only accepted when the executable trigger of a recorded finding
that justifies the weakening fires on the stream (judge())."""
import os, re, sys, json
from fractions import Fraction
import common as C

# ------------------------------------------------------------------------------------------------
# canonical form of the implementation's output
# ------------------------------------------------------------------------------------------------
KIND = {"region": 0, "rollup": 1, "paint": 2, "pop": 3}
ALIGN = None


class Noncanonical(Exception):
    """the document has a shape the canonicaliser does not know: a harness problem, reported as such"""


def _region_ident(rid):
    m = re.fullmatch(r"(region|rollup|paint|pop)(\d+)", rid or "")
    if not m: raise Noncanonical(f"region id {rid!r}")
    return KIND[m.group(1)], int(m.group(2))


def _int(v, what):
    if isinstance(v, bool) or not (isinstance(v, int) or (isinstance(v, float) and v == int(v))):
        raise Noncanonical(f"{what} is not integral: {v!r}")
    return int(v)


def canon_doc(doc):
    """ContentDocument -> ('ok', regions, paragraphs)"""
    import ttconv.model as m
    import ttconv.style_properties as s
    from gen_tables import packcolor
    SP = s.StyleProperties
    cr = doc.get_cell_resolution()
    if (cr.rows, cr.columns) != (19, 40): raise Noncanonical(f"cell resolution {cr}")
    aa = doc.get_active_area()
    if aa is None or (aa.left_offset, aa.top_offset, aa.width, aa.height) != (4 / 40, 2 / 19, 32 / 40, 15 / 19):
        raise Noncanonical(f"active area {aa}")
    regions = []
    for r in doc.iter_regions():
        kind, num = _region_ident(r.get_id())
        styles = {p: r.get_style(p) for p in r.iter_styles()}
        if set(styles) != {SP.Origin, SP.Extent, SP.DisplayAlign, SP.ShowBackground}: raise Noncanonical(f"region styles {set(styles)}")
        o, e = styles[SP.Origin], styles[SP.Extent]
        for ln in (o.x, o.y, e.width, e.height):
            if ln.units is not s.LengthType.Units.pct: raise Noncanonical("region units")
        if styles[SP.ShowBackground] is not s.ShowBackgroundType.whenActive: raise Noncanonical("showBackground")
        da = styles[SP.DisplayAlign]
        if da not in (s.DisplayAlignType.before, s.DisplayAlignType.after): raise Noncanonical("displayAlign")
        if r.get_begin() is not None or r.get_end() is not None or list(r): raise Noncanonical("region timing/children")
        regions.append((kind, num, _int(o.x.value, "origin x"), _int(o.y.value, "origin y"),
                        _int(e.width.value, "extent w"), _int(e.height.value, "extent h"), da is s.DisplayAlignType.after))
    body = doc.get_body()
    if body is None: raise Noncanonical("no body")
    bstyles = {p for p in body.iter_styles()}
    if bstyles != {SP.LineHeight, SP.FontFamily, SP.LinePadding}: raise Noncanonical(f"body styles {bstyles}")
    divs = list(body)
    if len(divs) != 1 or not isinstance(divs[0], m.Div): raise Noncanonical("body children")
    paras = []
    ta = {s.TextAlignType.start: 0, s.TextAlignType.center: 1, s.TextAlignType.end: 2}
    for p in divs[0]:
        if not isinstance(p, m.P): raise Noncanonical("div child")
        pid = p.get_id()
        if pid == "" or pid is None: idn = None
        else:
            mm = re.fullmatch(r"caption(-?\d+)", pid)
            if not mm: raise Noncanonical(f"p id {pid!r}")
            idn = int(mm.group(1))
        ps = {q: p.get_style(q) for q in p.iter_styles()}
        if not set(ps) <= {SP.TextAlign}: raise Noncanonical(f"p styles {set(ps)}")
        al = ta[ps[SP.TextAlign]] if SP.TextAlign in ps else None
        reg = p.get_region()
        if reg is None or doc.get_region(reg.get_id()) is not reg: raise Noncanonical("p region")
        children = []
        for ch in p:
            if isinstance(ch, m.Br):
                children.append(("br",))
            elif isinstance(ch, m.Span):
                if ch.get_end() is not None: raise Noncanonical("span end")
                kids = list(ch)
                if len(kids) != 1 or not isinstance(kids[0], m.Text): raise Noncanonical("span children")
                st = {q: ch.get_style(q) for q in ch.iter_styles()}
                if not set(st) <= {SP.Color, SP.FontStyle, SP.TextDecoration, SP.BackgroundColor}: raise Noncanonical(f"span styles {set(st)}")
                if SP.FontStyle in st and st[SP.FontStyle] is not s.FontStyleType.italic: raise Noncanonical("font style")
                if SP.TextDecoration in st:
                    td = st[SP.TextDecoration]
                    if not (td.underline is True and td.line_through is None and td.overline is None): raise Noncanonical(f"text decoration {td}")
                children.append(("span", ch.get_begin(), packcolor(st.get(SP.Color)), SP.FontStyle in st, SP.TextDecoration in st,
                                 packcolor(st.get(SP.BackgroundColor)), kids[0].get_text()))
            else:
                raise Noncanonical(f"p child {type(ch).__name__}")
        paras.append((idn, p.get_begin(), p.get_end(), _region_ident(reg.get_id()), al, children))
    return ("ok", regions, paras)


TALIGN = ["auto", "left", "center", "right"]


def run_impl(scc, talign=0):
    """the implementation on one file: canonical document or ('err', exception class name)"""
    import ttconv.scc.reader as reader
    from ttconv.scc.config import SccReaderConfiguration, TextAlignment
    # talign -1: no configuration at all (the default, text_align auto)
    cfg = None if talign is None or talign < 0 else SccReaderConfiguration(text_align=TextAlignment.from_value(TALIGN[talign]))
    try:
        doc = reader.to_model(scc, cfg)
    except RecursionError:
        raise
    except Exception as e:
        return ("err", type(e).__name__)
    return canon_doc(doc)


# ------------------------------------------------------------------------------------------------
# Gallina literals
# ------------------------------------------------------------------------------------------------
def lit_q(x):
    x = Fraction(x)
    return f"(qz {C.z(x.numerator)} {x.denominator})"

def lit_text(s):
    return "[" + ";".join(str(ord(c)) for c in s) + "]"

def lit_doc(d):
    if d[0] == "err": return "DocErr"
    _, regions, paras = d
    rs = "[" + "; ".join(f"mkR {k} {n} {C.z(ox)} {C.z(oy)} {C.z(ew)} {C.z(eh)} {C.boolean(after)}" for k, n, ox, oy, ew, eh, after in regions) + "]"
    ps = []
    for idn, b, e, (rk, rn), al, children in paras:
        cs = []
        for ch in children:
            if ch[0] == "br": cs.append("QBr")
            else:
                _, sb, col, ita, und, bg, tx = ch
                cs.append(f"QSpan {C.opt(sb, lit_q)} (mkTS {C.z(col)} {C.boolean(ita)} {C.boolean(und)} {C.z(bg)}) {lit_text(tx)}")
        ps.append(f"mkPQ {C.opt(idn, C.z)} {C.opt(b, lit_q)} {C.opt(e, lit_q)} ({rk}, {rn}) {C.opt(al, C.z)} [" + "; ".join(cs) + "]")
    return f"(Doc {rs} [" + ";\n   ".join(ps) + "])"

def lit_line(s):
    """a line of the file as a Coq string (the generated files are ASCII)"""
    if all(0 < ord(c) < 128 for c in s): return C.coq_string(s)
    raise ValueError("non-ASCII line")

def lit_case(talign, scc, d):
    lines = scc.splitlines()
    return f"mkCase {max(talign, 0)} [" + "; ".join(lit_line(l) for l in lines) + "]%string\n  " + lit_doc(d)


# ------------------------------------------------------------------------------------------------
# seeds: the literal streams of the repository's own test file
# ------------------------------------------------------------------------------------------------
def test_file_streams():
    p = C.REPO + "/src/test/python/test_scc_reader.py"
    try:
        src = open(p, encoding="utf-8").read()
    except OSError:
        return []
    out = []
    for m in re.finditer(r'scc_content = """(.*?)"""', src, flags=re.S):
        body = m.group(1)
        if body.startswith("\\\n"): body = body[2:]
        out.append(body)
    return out


# ------------------------------------------------------------------------------------------------
# CEA-608 words (channel 1, field 1 unless said otherwise)
# ------------------------------------------------------------------------------------------------
PAC_OF_ROW = {1: (0x11, 0), 2: (0x11, 1), 3: (0x12, 0), 4: (0x12, 1), 5: (0x15, 0), 6: (0x15, 1), 7: (0x16, 0), 8: (0x16, 1),
              9: (0x17, 0), 10: (0x17, 1), 11: (0x10, 0), 12: (0x13, 0), 13: (0x13, 1), 14: (0x14, 0), 15: (0x14, 1)}
RCL, BS, AOF, AON, DER, RU2, RU3, RU4, FON, RDC, TR, RTD, EDM, CR, ENM, EOC = [0x1420 + i for i in range(16)]
TO1, TO2, TO3 = 0x1721, 0x1722, 0x1723

def w_pac(row, attr, ch2=False):
    """attr 0x00-0x0F: colour/italics (+ underline bit), 0x10-0x1F: indent 4*((attr-0x10)//2) (+ underline bit)"""
    b1, hi = PAC_OF_ROW[row]
    return ((b1 | (8 if ch2 else 0)) << 8) | (0x40 + (0x20 if hi else 0) + attr)

def w_mid(attr): return 0x1120 + attr          # 0..13 colours (+underline), 14/15 italics
def w_special(k): return 0x1130 + k
def w_ext(k): return (0x1220 if k < 32 else 0x1300) + k   # k in 0..63
def w_ch2(w): return w | 0x0800

def odd_parity(b):
    return b | (0x80 if bin(b).count("1") % 2 == 0 else 0)

def hexword(w, parity):
    b1, b2 = w >> 8, w & 0xFF
    if parity: b1, b2 = odd_parity(b1), odd_parity(b2)
    return "%02x%02x" % (b1, b2)

def text_words(bs):
    """bytes (0x20..0x7F) -> words, an odd tail padded with a null second byte"""
    bs = list(bs)
    if len(bs) % 2: bs.append(0)
    return [(bs[i] << 8) | bs[i + 1] for i in range(0, len(bs), 2)]

# ---- time codes
def label_of_frame(n, df):
    """SMPTE ST 12-1 address of frame count n (the harness' own arithmetic)"""
    if df:
        d, m = divmod(n, 17982)
        n = n + 18 * d + (2 * ((m - 2) // 1798) if m >= 2 else 0)
    return (n // 108000, (n // 1800) % 60, (n // 30) % 60, n % 30)

def tc_text(lab, df):
    return "%02d:%02d:%02d%s%02d" % (lab[0], lab[1], lab[2], ";" if df else ":", lab[3])


class Stream:
    """lines: list of (frame count, [words]); one rate per stream"""
    def __init__(self, kind, df, parity, lines, judged=True, raw=None):
        self.kind, self.df, self.parity, self.lines, self.judged, self.raw = kind, df, parity, lines, judged, raw
    def labels(self):
        return [label_of_frame(t, self.df) for t, _ in self.lines]
    def scc(self):
        if self.raw is not None: return self.raw
        out = ["Scenarist_SCC V1.0", ""]
        for (t, ws), lab in zip(self.lines, self.labels()):
            out.append(tc_text(lab, self.df) + "\t" + " ".join(hexword(w, self.parity) for w in ws)); out.append("")
        return "\n".join(out)
    def slines(self):
        return [(self.df, lab, ws) for (t, ws), lab in zip(self.lines, self.labels())]


# ------------------------------------------------------------------------------------------------
# protocol grammars
# ------------------------------------------------------------------------------------------------
STD = [b for b in range(0x21, 0x80)]
WORDS = ["HELLO", "WORLD", "Test", "captions", "a", "I", "12", "(horn)", "ok?", "yes,", "No.", "[music]", "it's", "x*y", "\\o/", "{z}"]

class Gen:
    def __init__(self, rng, dbl, pad_p=0.15, ch2_p=0.1, reuse_p=0.04):
        self.rng, self.dbl, self.pad_p, self.ch2_p, self.reuse_p = rng, dbl, pad_p, ch2_p, reuse_p
        self.disp, self.buf = set(), set()
        self.mode = "pop"      # the decoder starts in pop-on mode

    def code(self, w):
        """a control-range word, doubled according to the stream's convention, with optional channel-2 block before it
        and null padding after it"""
        r = self.rng; out = []
        if r.random() < self.ch2_p:
            out += self.ch2_block()
        d = self.dbl if self.dbl in (0, 1) else (r.random() < 0.5)
        out += [w, w] if d else [w]
        while r.random() < self.pad_p: out.append(0)
        return out

    def ch2_block(self):
        r = self.rng
        out = [w_ch2(r.choice([RCL, RDC, RU2, EDM, ENM, EOC, CR, w_pac(r.randint(1, 15), r.randrange(32)), w_mid(r.randrange(16))]))]
        if r.random() < 0.5: out.append(out[0])
        if r.random() < 0.6: out += text_words([ord(c) for c in r.choice(["(CC2)", "xx", "other"])])
        if r.random() < 0.3: out.append(w_ch2(r.choice([EDM, EOC, CR])))
        return out

    def text_run(self, maxlen, mid=True, allow_edge_space=False):
        """words of a run of text of at most maxlen columns: standard / special / extended characters, mid-row codes"""
        r = self.rng; out = []; pend = []; n = 0
        def flush():
            nonlocal pend
            out.extend(text_words(pend)); pend = []
        target = r.randint(1, max(1, maxlen))
        first = True
        while n < target:
            k = r.random()
            if k < 0.70 or first:
                wd = r.choice(WORDS) if r.random() < 0.7 else "".join(chr(r.choice(STD)) for _ in range(r.randint(1, 6)))
                if not first and n + 1 < target: pend.append(0x20); n += 1
                for ch in wd:
                    if n >= target: break
                    pend.append(ord(ch)); n += 1
            elif k < 0.80:
                flush(); sp = w_special(r.randrange(16)); out += self.code(sp); n += 1
                if r.random() < 0.15 and n < target:
                    # the same character again after null padding / a channel-2 block: not the second copy of a doubled code
                    out += ([0] * r.randint(1, 2) if r.random() < 0.7 else self.ch2_block()) + self.code(sp); n += 1
            elif k < 0.90 and n + 1 <= target:
                pend.append(ord(r.choice("AEOUaeou-'\"")))
                flush(); out += self.code(w_ext(r.randrange(64))); n += 1
            elif mid and n + 2 <= target:
                flush(); m1 = r.randrange(16); out += self.code(w_mid(m1)); n += 1
                if r.random() < 0.2 and n + 2 <= target:
                    # a second mid-row code directly after the first one (each occupies a cell; the second sets the attributes)
                    out += self.code(w_mid(r.choice([m for m in range(16) if m != m1]))); n += 1
                pend.append(ord(r.choice("abcXYZ"))); n += 1
            first = False
        flush()
        self.run_cols = n
        return out

    def row_words(self, row, mid=True):
        r = self.rng
        if r.random() < 0.6:
            ind = r.randrange(7); attr = 0x10 + 2 * ind + (r.random() < 0.15); col = 4 * ind
        else:
            attr = r.randrange(16); col = 0
        out = self.code(w_pac(row, attr))
        if r.random() < 0.35:
            t = r.randint(1, 3); out += self.code(0x1720 + t); col += t
        out += self.text_run(min(30 - col, r.choice([6, 12, 20, 30 - col])), mid)
        self.row_start, self.row_end = col, col + self.run_cols
        return out

    def row_again(self, row):
        """more words for the row just written (pop-on): a second run of text further right (PAC with a larger indent or a
        tab offset: the gap stays), or a PAC back into the text followed by Delete to End of Row"""
        r = self.rng; out = []
        k = r.random()
        if k < 0.1 and self.row_end % 4 == 0 and 0 < self.row_end <= 24:
            # a PAC that puts the cursor directly behind the text (recorded finding overwrite-keeps-element-style when the pen differs)
            out += self.code(w_pac(row, 0x10 + 2 * (self.row_end // 4))) + self.text_run(4, mid=False)
        elif k < 0.45:
            ind = (self.row_end // 4) + 1 + r.randrange(2)
            if 4 * ind > 24: return []
            out += self.code(w_pac(row, 0x10 + 2 * ind + (r.random() < 0.15)))
            out += self.text_run(min(30 - 4 * ind, 6), mid=False)
        elif k < 0.75:
            t = r.randint(1, 3)
            if self.row_end + t > 24: return []
            out += self.code(0x1720 + t)
            out += self.text_run(min(30 - self.row_end - t, 6), mid=False)
        else:
            inds = [i for i in range(8) if self.row_start <= 4 * i < self.row_end]
            if not inds: return []
            out += self.code(w_pac(row, 0x10 + 2 * r.choice(inds))) + self.code(DER)
        return out

    # The generator keeps track of which rows of the displayed / non-displayed memory hold text, so that a PAC
    # normally addresses a blank row (what captioning encoders do); with probability `reuse_p` it does not care.
    def pick_rows(self, n, occupied):
        r = self.rng
        free = [x for x in range(1, 16) if x not in occupied]
        if r.random() < self.reuse_p or len(free) < n:
            r0 = r.randint(1, 15 - n + 1)
            return list(range(r0, r0 + n)) if r.random() < 0.8 else sorted(r.sample(range(1, 16), n))
        runs = [x for x in free if all(x + k in free for k in range(n))]
        if runs and r.random() < 0.8:
            r0 = r.choice(runs); return list(range(r0, r0 + n))
        return sorted(r.sample(free, n))

    # ---- pop-on
    def popon(self, t0, ncap, enm_p=0.8):
        r = self.rng; lines = []; t = t0
        for _ in range(ncap):
            ws = self.code(RCL) if (r.random() < 0.9 or self.mode != "pop") else []
            self.mode = "pop"
            nrows = r.randint(1, 4)
            if r.random() < enm_p or len(self.buf) > 15 - nrows:
                ws += self.code(ENM); self.buf = set()
            rows = self.pick_rows(nrows, self.buf)
            for row in rows:
                ws += self.row_words(row)
                if r.random() < 0.12: ws += self.row_again(row)
            self.buf |= set(rows)
            if r.random() < 0.4: ws += self.code(EDM); self.disp = set()
            ws += self.code(EOC); self.disp, self.buf = self.buf, self.disp
            lines.append((t, ws)); t += len(ws) + r.randint(3, 50)
            if r.random() < 0.6:
                ws = self.code(EDM); self.disp = set(); lines.append((t, ws)); t += len(ws) + r.randint(3, 30)
        return lines, t

    # ---- roll-up
    def rollup(self, t0, nlines):
        r = self.rng; lines = []; t = t0
        depth = r.choice([RU2, RU3, RU4]); base = 15 if r.random() < 0.7 else r.randint(4, 15)
        erased = True; self.mode = "roll"
        for i in range(nlines):
            ws = []
            if i == 0 or r.random() < 0.5 or (erased and r.random() >= self.reuse_p): ws += self.code(depth)
            ws += self.code(CR)
            if i > 0 and r.random() < 0.1:
                # a blank line: a second carriage return (not the second copy of a doubled code: a null pair in between)
                ws += [0] + self.code(CR)
            col = 0
            if r.random() < 0.9 or i == 0:
                if r.random() < 0.8:
                    ind = r.randrange(4); attr = 0x10 + 2 * ind; col = 4 * ind
                else:
                    attr = r.randrange(16)
                ws += self.code(w_pac(base, attr))
            ws += self.text_run(min(30 - col, r.choice([8, 16, 28])), mid=r.random() < 0.5)
            erased = False
            lines.append((t, ws)); t += len(ws) + r.randint(3, 50)
            if r.random() < 0.1:
                ws = self.code(EDM); erased = True; lines.append((t, ws)); t += len(ws) + r.randint(3, 30)
        self.disp = set(range(1, 16)); self.buf = set()
        return lines, t

    # ---- paint-on
    def painton(self, t0, ncap):
        r = self.rng; lines = []; t = t0
        for _ in range(ncap):
            ws = self.code(RDC); self.mode = "paint"
            nrows = r.randint(1, 3)
            if len(self.disp) > 15 - nrows:
                ws = self.code(EDM) + ws; self.disp = set()
            rows = self.pick_rows(nrows, self.disp)
            for row in rows:
                ws += self.row_words(row, mid=r.random() < 0.4)
                self.disp.add(row)
                if r.random() < 0.15: ws += self.code(BS)
                if r.random() < 0.1: ws += self.code(DER)
                if r.random() < 0.3:
                    lines.append((t, ws)); t += len(ws) + r.randint(3, 30); ws = []
            if ws: lines.append((t, ws)); t += len(ws) + r.randint(3, 50)
            if r.random() < 0.8:
                ws = self.code(EDM); self.disp = set(); lines.append((t, ws)); t += len(ws) + r.randint(3, 30)
        return lines, t

    def clear_all(self, t):
        """between segments of different modes: erase both memories"""
        r = self.rng
        ws = self.code(EDM) + self.code(ENM); self.disp = set(); self.buf = set()
        return [(t, ws)], t + len(ws) + r.randint(3, 30)


# ------------------------------------------------------------------------------------------------
# directed streams for the two repaired code paths (repairs 2161e28 / db8ff2b of the implementation)
# ------------------------------------------------------------------------------------------------
def gen_no_caption(rng):
    """backspace, tab offsets, extended characters (and the other codes that look at the caption being processed) received
    while NO caption is being processed: roll-up / paint-on style with nothing displayed (start of the file, after EDM).
    The reader used to raise AttributeError here; the code is now ignored.  Compared with M (oracle 1) only: what a decoder
    shows for an extended character without a positioned cursor is not what the reader's active_cursor gives."""
    r = rng; df = r.random() < 0.4
    g = Gen(r, r.choice([0, 0, 1, 2]), pad_p=r.choice([0, 0.15]), ch2_p=r.choice([0, 0.1]))
    t = start_frame(r, df); lines = []
    def orphan_codes():
        out = []
        for _ in range(r.randint(1, 5)):
            k = r.random()
            if k < 0.30: out += g.code(BS)
            elif k < 0.60: out += g.code(0x1720 + r.randint(1, 3))
            elif k < 0.80: out += g.code(w_ext(r.randrange(64)))
            elif k < 0.87: out += g.code(DER)
            elif k < 0.94: out += g.code(w_mid(r.randrange(16)))
            else: out += g.code(0x1020 + r.randrange(16))          # background attribute code
            if r.random() < 0.2: out += text_words([ord(c) for c in r.choice(WORDS)])
        return out
    for _ in range(r.randint(1, 3)):
        style = r.choice(["paint", "roll"])
        ws = g.code(RDC) if style == "paint" else g.code(r.choice([RU2, RU3, RU4]))
        if r.random() < 0.7:
            # something displayed first, then erased: the active caption is gone, the style stays
            if style == "roll": ws += g.code(CR)
            ws += g.row_words(15 if style == "roll" else r.randint(1, 15), mid=False)
            lines.append((t, ws)); t += len(ws) + r.randint(3, 30)
            ws = g.code(EDM)
        elif style == "roll":
            # RUx creates the active caption: erase it so that nothing is being processed
            ws += g.code(EDM)
        ws += orphan_codes()
        if r.random() < 0.7:
            if style == "roll" and r.random() < 0.5: ws += g.code(CR)
            ws += g.row_words(15 if style == "roll" else r.randint(1, 15), mid=r.random() < 0.3)
            if r.random() < 0.3: ws += g.code(BS) + g.code(0x1720 + r.randint(1, 3))
        lines.append((t, ws)); t += len(ws) + r.randint(3, 40)
        if r.random() < 0.6:
            ws = g.code(EDM) + (orphan_codes() if r.random() < 0.5 else [])
            lines.append((t, ws)); t += len(ws) + r.randint(3, 30)
    st = Stream("nocaption", df, r.random() < 0.7, lines, judged=False); st.dbl = g.dbl
    return st


def gen_paint_flip(rng):
    """a paint-on caption whose words carry span begins (words starting / ending with a space, mid-row codes) is moved to the
    non-displayed memory by an EOC, optionally extended there in pop-on style, and displayed again by a later EOC: its text was
    painted before the new paragraph begins.  The reader used to give such spans a negative begin; they now begin with the
    paragraph.  Judged by S like the protocol streams."""
    r = rng; df = r.random() < 0.4
    g = Gen(r, r.choice([0, 0, 1]), pad_p=r.choice([0, 0.1]), ch2_p=0)
    t = start_frame(r, df); lines = []
    for _ in range(r.randint(1, 2)):
        ws = g.code(RDC)
        rows = sorted(r.sample(range(1, 16), r.randint(1, 2)))
        for row in rows:
            ind = r.randrange(4)
            ws += g.code(w_pac(row, 0x10 + 2 * ind))
            # every row stays left of the last column (as in the protocol grammars: what the reader does there is not judged):
            # indent + text + mid-row cell and four characters + the word (at most eight characters) appended after the first flip <= 30
            txt = " ".join(r.choice(WORDS) for _ in range(r.randint(2, 4)))[:30 - 4 * ind - 14]
            if r.random() < 0.5: txt = txt if len(txt) % 2 == 0 else txt + "!"      # word boundaries fall on either byte of a pair
            ws += text_words([ord(c) for c in txt])
            if r.random() < 0.3: ws += g.code(w_mid(r.randrange(16))) + text_words([ord(c) for c in r.choice(WORDS)[:4]])
            if r.random() < 0.4:
                lines.append((t, ws)); t += len(ws) + r.randint(3, 30); ws = []
        if ws: lines.append((t, ws)); t += len(ws) + r.randint(3, 40)
        # first flip: the paint-on caption goes to the non-displayed memory
        ws = (g.code(RCL) if r.random() < 0.7 else []) + g.code(EOC)
        lines.append((t, ws)); t += len(ws) + r.randint(3, 60)
        ws = []
        if r.random() < 0.6:
            # pop-on style: more text for the caption now in the non-displayed memory
            ws += g.code(RCL)
            if r.random() < 0.5:
                free = [x for x in range(1, 16) if x not in rows]
                ws += g.code(w_pac(r.choice(free), 0x10 + 2 * r.randrange(4))) + text_words([ord(c) for c in r.choice(WORDS)])
            else:
                ws += text_words([ord(c) for c in r.choice(WORDS)])
        # second flip: displayed again, later than its words were painted
        ws += g.code(EOC)
        lines.append((t, ws)); t += len(ws) + r.randint(3, 60)
        if r.random() < 0.3:
            ws = g.code(EOC); lines.append((t, ws)); t += len(ws) + r.randint(3, 30)
            ws = g.code(EOC); lines.append((t, ws)); t += len(ws) + r.randint(3, 30)
        ws = g.code(EDM) + g.code(ENM); lines.append((t, ws)); t += len(ws) + r.randint(3, 30)
    st = Stream("paintflip", df, r.random() < 0.7, lines); st.dbl = g.dbl
    return st


def start_frame(rng, df):
    k = rng.random()
    if k < 0.5: return rng.randint(0, 3000)
    if k < 0.8:
        # near a minute / ten-minute boundary (where drop-frame counting skips addresses)
        return max(0, rng.randint(1, 200) * 1798 - rng.randint(0, 120)) if df else max(0, rng.randint(1, 200) * 1800 - rng.randint(0, 120))
    return rng.randint(0, 24 * 107892 - 5000)


def gen_protocol(rng, kind=None):
    """one stream following one of the three protocols (or a sequence of them)"""
    kind = kind or rng.choice(["popon", "popon", "rollup", "painton", "mixed"])
    df = rng.random() < 0.5
    dbl = rng.choice([0, 0, 0, 1, 2])
    g = Gen(rng, dbl, pad_p=rng.choice([0, 0.1, 0.3]), ch2_p=rng.choice([0, 0, 0.15]))
    t = start_frame(rng, df)
    if kind == "popon": lines, _ = g.popon(t, rng.randint(1, 4), enm_p=rng.choice([1.0, 1.0, 0.5]))
    elif kind == "rollup": lines, _ = g.rollup(t, rng.randint(2, 6))
    elif kind == "painton": lines, _ = g.painton(t, rng.randint(1, 3))
    else:
        lines = []
        for i in range(rng.randint(2, 3)):
            k = rng.choice(["popon", "rollup", "painton"])
            if i > 0:
                ls, t = g.clear_all(t); lines += ls
            ls, t = (g.popon(t, rng.randint(1, 2)) if k == "popon" else g.rollup(t, rng.randint(2, 3)) if k == "rollup" else g.painton(t, 1))
            lines += ls
    st = Stream(kind, df, rng.random() < 0.7, lines); st.dbl = dbl
    return st


def gen_wild(rng):
    """words of every class in any order, both channels, field-2 and unknown codes, overlapping or unordered lines,
    mixed rates, odd labels, malformed words: judged by oracle 1 (M = code) only"""
    n_lines = rng.randint(1, 6); out = ["Scenarist_SCC V1.0", ""] if rng.random() < 0.8 else []
    t = rng.randint(0, 200000)
    for _ in range(n_lines):
        ws = []
        for _ in range(rng.randint(1, 30)):
            k = rng.random()
            if k < 0.35: w = (rng.choice(STD) << 8) | rng.choice(STD + [0, 0x20, 0x20])
            elif k < 0.50: w = w_pac(rng.randint(1, 15), rng.randrange(32))
            elif k < 0.70: w = 0x1420 + rng.randrange(16)
            elif k < 0.75: w = 0x1720 + rng.randint(1, 3)
            elif k < 0.80: w = w_mid(rng.randrange(16))
            elif k < 0.84: w = w_special(rng.randrange(16))
            elif k < 0.88: w = w_ext(rng.randrange(64))
            elif k < 0.91: w = rng.choice([0x1020 + rng.randrange(16), 0x172D, 0x172E, 0x172F])
            elif k < 0.94: w = 0
            elif k < 0.97: w = rng.randrange(0x1000, 0x2000)
            else: w = rng.randrange(0x10000) & 0x7F7F
            if rng.random() < 0.08: w = w_ch2(w) if 0x1000 <= w < 0x2000 else w
            ws.append(w)
            if 0x1000 <= w < 0x2000 and rng.random() < 0.4: ws.append(w)
        df = rng.random() < 0.3
        lab = label_of_frame(t, df) if rng.random() < 0.9 else (rng.randrange(100), rng.randrange(100), rng.randrange(100), rng.randrange(100))
        sep = ";" if df else ":"
        tc = "%02d:%02d:%02d%s%02d" % (lab[0], lab[1], lab[2], sep, lab[3])
        if rng.random() < 0.03: tc = tc.replace(":", rng.choice([".", ",", ";"]), 1)
        par = rng.random() < 0.5
        words = [hexword(w, par) for w in ws]
        if rng.random() < 0.04: words[rng.randrange(len(words))] = rng.choice(["94", "zzzz", "94200", "+123", "0x1f", "1_23", "942g"])
        if rng.random() < 0.3: words = [x.upper() for x in words]
        line = tc + "\t" + (" " if rng.random() < 0.1 else "") + " ".join(words) + (" " if rng.random() < 0.1 else "")
        if rng.random() < 0.03: line = line.replace("\t", " ", 1)
        out.append(line)
        if rng.random() < 0.8: out.append("")
        t = max(0, t + rng.randint(-20, 120))
    return Stream("wild", False, False, [], judged=False, raw="\n".join(out))


# ------------------------------------------------------------------------------------------------
# verdict of oracle 2 for one case
# ------------------------------------------------------------------------------------------------
NONE_CODE = -1000000000
# trigger flags of Spec/Cea608Screen.v (tDUP ...) and Model/SccReaderCases.v (tABOVE); the values 2, 16, 64, 128, 1024 belonged to
# findings that have been repaired (previous-word-survives-padding, midrow-italics-resets-colour, der-ignored,
# painton-space-word-unstyled, pac-right-of-row-content)
T_DUP, T_LATE, T_BASE, T_CLEAR, T_ABOVE, T_NEGCUR, T_ROW0, T_OVER, T_CR = 1, 4, 8, 32, 256, 512, 2048, 4096, 8192
FINDING_OF_FLAG = {T_DUP: "doubled-code-no-frame",
                   T_LATE: "text-shown-from-paragraph-begin", T_BASE: "rollup-base-row-forced-15",
                   T_CLEAR: "painton-pac-clears-row", T_ABOVE: "region-above-attached",
                   T_OVER: "overwrite-keeps-element-style", T_CR: "cr-erases-non-rollup-caption", T_NEGCUR: "pac-left-of-row-content", T_ROW0: "rollup-text-after-edm-row0"}
# findings whose effect on the text S does not emulate: a case on which one of them fires and no oracle accepts is
# attributed to it (the generator produces such streams rarely)
BLIND_FLAGS = T_NEGCUR | T_ROW0
DEV_FLAGS = T_BASE | T_CLEAR | T_CR


def judge(codes):
    """codes = [strict, lenient(g, view) for g in 0..2 for view in 0..2, trigger flags, class of the display theorem]
    -> ('ok', []) | ('known', [finding ids]) | ('violation', first rejected frame of the strict oracle)"""
    strict, grid, flags = codes[0], codes[1:10], codes[10]
    if strict == NONE_CODE: return ("ok", [])
    for g, vw in sorted(((g, vw) for g in range(3) for vw in range(3)), key=lambda x: (x[0] + x[1], x[0])):
        if grid[3 * g + vw] != NONE_CODE: continue
        need = []
        if g == 0 and vw == 0: need.append(DEV_FLAGS)
        if g == 1: need.append(T_DUP)
        if g == 2: need.append(T_LATE)
        if vw == 1: need.append(T_OVER)
        if vw == 2: need.append(T_ABOVE)
        if all(flags & n for n in need):
            adm = DEV_FLAGS | (T_DUP if g >= 1 else 0) | (T_LATE if g == 2 else 0) | (T_OVER if vw >= 1 else 0) | (T_ABOVE if vw == 2 else 0)
            return ("known", [FINDING_OF_FLAG[f] for f in FINDING_OF_FLAG if flags & adm & f])
    if flags & BLIND_FLAGS:
        return ("known", [FINDING_OF_FLAG[f] for f in FINDING_OF_FLAG if flags & BLIND_FLAGS & f])
    return ("violation", strict)


# ------------------------------------------------------------------------------------------------
# case files
# ------------------------------------------------------------------------------------------------
HDR = ("From Coq Require Import QArith String.\n"
       "From TT Require Import Base.Prelude Base.SccDoc Model.SccReader Model.SccReaderCases Spec.Cea608Screen Proofs.C08.ScreenCases.\n"
       "Open Scope Z_scope.\n")


def parse_scc_single_rate(scc):
    """(df, [(label, [raw words])]) when every line of the file parses, all lines have the same rate, start after the
    previous line has been transmitted and hold only four-digit hexadecimal words; None otherwise"""
    out = []; df = None; prev_end = None
    for l in scc.splitlines():
        m = re.fullmatch(r"(\d\d):(\d\d):(\d\d)([:;])(\d\d)\t(.*)", l)
        if not m:
            if re.match(r"\d\d.\d\d.\d\d.\d\d\t", l): return None
            continue
        d = m.group(4) == ";"
        if df is None: df = d
        elif df != d: return None
        words = [x for x in m.group(6).split(" ") if x]
        if not all(re.fullmatch(r"[0-9a-fA-F]{4}", x) for x in words): return None
        lab = tuple(int(m.group(i)) for i in (1, 2, 3, 5))
        tm = 60 * lab[0] + lab[1]
        t = (tm * 60 + lab[2]) * 30 + lab[3] - (2 * (tm - tm // 10) if d else 0)
        if prev_end is not None and t < prev_end: return None
        prev_end = t + len(words)
        out.append((lab, [int(x, 16) for x in words]))
    if df is None: return None
    return df, out


def lit_scase(df, slines, talign, scc, d):
    sl = [f"mkSL {C.boolean(df)} {lab[0]} {lab[1]} {lab[2]} {lab[3]} [" + ";".join(map(str, ws)) + "]" for lab, ws in slines]
    return f"mkSCase {C.boolean(df)} [" + ";\n ".join(sl) + "]\n (" + lit_case(talign, scc, d) + ")"


def impl_job(args):
    """worker: run the implementation on (talign, scc); returns the canonical document or a harness error"""
    import logging
    logging.disable(logging.CRITICAL)
    sys.path.insert(0, C.SRC)
    ta, scc = args
    try:
        return run_impl(scc, ta)
    except Noncanonical as e:
        return ("noncanonical", str(e))


# which of the two repaired paths a stream drives the implementation through: observed on the running code (wrappers that only
# look, then call the original method)
_REACH = None

def _instrument():
    global _REACH
    if _REACH is not None: return _REACH
    _REACH = {"code_without_caption": 0, "painton_text_before_paragraph": 0}
    import ttconv.scc.context as cx, ttconv.scc.caption_paragraph as cp
    from ttconv.scc.codes.control_codes import SccControlCode as K
    from ttconv.scc.caption_style import SccCaptionStyle
    orig_bs, orig_pcc, orig_tp = cx.SccContext.backspace, cx.SccContext.process_control_code, cp.SccCaptionParagraph.to_paragraph
    def backspace(self):
        # BS control code and extended characters (SccLine.process calls context.backspace())
        if self.get_caption_to_process() is None: _REACH["code_without_caption"] += 1
        return orig_bs(self)
    def process_control_code(self, control_code, time_code):
        if control_code in (K.TO1, K.TO2, K.TO3) and self.get_caption_to_process() is None: _REACH["code_without_caption"] += 1
        return orig_pcc(self, control_code, time_code)
    def to_paragraph(self, doc):
        if self.get_caption_style() is SccCaptionStyle.PaintOn and self.get_begin() is not None:
            b0 = self.get_begin().to_temporal_offset()
            for line in self.get_lines().values():
                for t in line.get_texts():
                    if not t.is_empty() and t.get_begin() is not None and t.get_begin().to_temporal_offset() < b0:
                        _REACH["painton_text_before_paragraph"] += 1
        return orig_tp(self, doc)
    cx.SccContext.backspace, cx.SccContext.process_control_code = backspace, process_control_code
    cp.SccCaptionParagraph.to_paragraph = to_paragraph
    return _REACH


def impl_reach_job(args):
    """impl_job plus the number of times each repaired path was taken"""
    import logging
    logging.disable(logging.CRITICAL)
    sys.path.insert(0, C.SRC)
    reach = _instrument()
    for k in reach: reach[k] = 0
    return impl_job(args), dict(reach)


def write_shards(prefix, judged, plain, cap=180000):
    """judged: list of (id, literal) of scase; plain: list of (id, literal) of case.  Returns [(path, judged ids, plain ids)]"""
    files = []; cur_j, cur_p, size = [], [], 0
    def flush():
        nonlocal cur_j, cur_p, size
        if not cur_j and not cur_p: return
        k = len(files)
        txt = (HDR + "Definition js : list scase := [\n" + ";\n".join(l for _, l in cur_j) + "].\n"
               "Definition ps : list case := [\n" + ";\n".join(l for _, l in cur_p) + "].\n"
               "Eval vm_compute in check_all (map (fun k => case_model (s_case k)) js ++ cases_model ps).\n"
               "Eval vm_compute in check_all (map case_parse js).\n"
               "Eval vm_compute in (map case_spec2 js).\n")
        p = f"{C.GEN}/{prefix}{k}.v"
        with open(p, "w") as f: f.write(txt)
        files.append((p, [i for i, _ in cur_j], [i for i, _ in cur_p]))
        cur_j, cur_p, size = [], [], 0
    for i, l in judged:
        if size + len(l) > cap and (cur_j or cur_p): flush()
        cur_j.append((i, l)); size += len(l)
    for i, l in plain:
        if size + len(l) > cap and (cur_j or cur_p): flush()
        cur_p.append((i, l)); size += len(l)
    flush()
    return files


def parse_shard_output(out, nj):
    """-> (model_bad indices within js++ps, parse_bad indices within js, codes per judged case) or None"""
    flat = " ".join(out.split())
    ms = re.findall(r"=\s*\(\s*(\d+)\s*,\s*(\[[^\]]*\]|nil)\s*\)", flat)
    if len(ms) != 2: return None
    bad = [[int(x) for x in re.findall(r"\d+", b)] for _, b in ms]
    if nj == 0: return bad[0], bad[1], []
    m3 = re.search(r"= (\[\[.*\]\]) : list \(list Z\)", flat)
    if not m3: return None
    codes = [[int(x) for x in re.findall(r"-?\d+", grp)] for grp in re.findall(r"\[([^\[\]]*)\]", m3.group(1))]
    if len(codes) != nj or any(len(c) != 12 for c in codes): return None
    return bad[0], bad[1], codes


def evaluate(prefix, cases):
    """cases: list of dicts(talign, scc, doc, judged=(df, slines) or None).  Adds 'model_ok', 'parse_ok', 'codes'.
    Returns the list of broken files."""
    judged = [(i, lit_scase(c["judged"][0], c["judged"][1], c["talign"], c["scc"], c["doc"])) for i, c in enumerate(cases) if c["judged"]]
    plain = [(i, lit_case(c["talign"], c["scc"], c["doc"])) for i, c in enumerate(cases) if not c["judged"]]
    C.clean_cases(prefix)
    files = write_shards(prefix, judged, plain)
    res = C.coqc_many([p for p, _, _ in files], 1500 if C.tier() == "quick" else 4000)
    broken = []
    for p, jids, pids in files:
        rc, out = res[p]
        r = parse_shard_output(out, len(jids)) if rc == 0 else None
        if r is None:
            broken.append((p, out[-600:])); continue
        mbad, pbad, codes = r
        ids = jids + pids
        for k, i in enumerate(ids): cases[i]["model_ok"] = k not in mbad
        for k, i in enumerate(jids):
            cases[i]["parse_ok"] = k not in pbad; cases[i]["codes"] = codes[k]
    C.clean_cases(prefix)
    return broken


# ------------------------------------------------------------------------------------------------
# the functions of scc/line.py and scc/config.py that to_model does not call
# ------------------------------------------------------------------------------------------------
def aux_cases(rng, sccs):
    """(style cases, align cases): SccLine.get_style on the lines of the generated files, TextAlignment.from_value on labels"""
    from ttconv.scc.line import SccLine
    from ttconv.scc.config import TextAlignment
    styles = []
    for scc in sccs:
        for l in scc.splitlines():
            try:
                sl = SccLine.from_str(l)
            except ValueError:
                continue
            if sl is None: continue
            styles.append(([w.value for w in sl.scc_words], sl.get_style().value))
    # lines made of one style-selecting code of either channel / field among other words
    for _ in range(200):
        ws = [rng.choice([0x1420, 0x1C20, 0x1520, 0x1D20, 0x1425, 0x1C26, 0x1527, 0x1429, 0x1D29, 0x142C, 0x142F, 0x1470, 0x4142, 0x1130, 0])
              for _ in range(rng.randint(0, 5))]
        line = "00:00:01:00\t" + " ".join("%04x" % w for w in ws)
        sl = SccLine.from_str(line)
        styles.append((ws, sl.get_style().value))
    labels = ["left", "center", "right", "auto", "", "lef", "leftt", "centre", "l eft", " left", "none", "start", "end", "0", "AUTO "]
    for lab in ["left", "center", "right", "auto"]:
        for _ in range(6): labels.append("".join(ch.upper() if rng.random() < 0.5 else ch for ch in lab))
    aligns = []
    for lab in labels:
        try:
            v = TALIGN.index(TextAlignment.from_value(lab).label)
        except ValueError:
            v = -1
        aligns.append((lab, v))
    return styles, aligns


def evaluate_aux(styles, aligns):
    """-> (number evaluated, [failing style cases], [failing align cases]) or None when the file did not evaluate"""
    C.clean_cases("Cases_C08_aux_")
    txt = (HDR + "Definition ss : list (list Z * Z) := [\n" + ";\n".join("([" + ";".join(map(str, ws)) + f"], {st})" for ws, st in styles) + "].\n"
           "Definition al : list (string * Z) := [\n" + ";\n".join(f"({C.coq_string(lab)}, {C.z(v)})" for lab, v in aligns) + "]%string.\n"
           "Eval vm_compute in check_all (map style_case ss).\nEval vm_compute in check_all (map align_case al).\n")
    p = f"{C.GEN}/Cases_C08_aux_0.v"
    with open(p, "w") as f: f.write(txt)
    rc, out = C.coqc_many([p], 900)[p]
    if rc != 0: rc, out = C.coqc_many([p], 900)[p]      # one retry: a loaded machine may kill the compiler
    C.clean_cases("Cases_C08_aux_")
    ms = re.findall(r"=\s*\(\s*(\d+)\s*,\s*(\[[^\]]*\]|nil)\s*\)", " ".join(out.split())) if rc == 0 else []
    if len(ms) != 2 or int(ms[0][0]) != len(styles) or int(ms[1][0]) != len(aligns): return None
    bad = [[int(x) for x in re.findall(r"\d+", b)] for _, b in ms]
    return len(styles) + len(aligns), [styles[i] for i in bad[0]], [aligns[i] for i in bad[1]]


# ------------------------------------------------------------------------------------------------
# the check
# ------------------------------------------------------------------------------------------------
PROOF_TARGETS = ["Proofs/C08/Stamps.vo", "Proofs/C08/Words.vo", "Proofs/C08/Protocol.vo", "Proofs/C08/Text.vo", "Proofs/C08/ScreenFile.vo", "Proofs/C08/ScreenFinal.vo", "Proofs/C08/ScreenRollStep.vo", "Proofs/C08/ScreenCases.vo",
                 "Model/SccReaderCases.vo", "Spec/Cea608Screen.vo"]


def proposed_findings():
    """findings_proposed/C08.txt: recorded findings not yet merged into KNOWN_FINDINGS.txt by the maintainer"""
    out = []
    try:
        for line in open(C.VERIF + "/findings_proposed/C08.txt", encoding="utf-8"):
            m = re.match(r"finding\s+property=(\S+)\s+id=(\S+)\s+what=(.*)", line.strip())
            if m and m.group(1) == "C08": out.append(dict(property="C08", id=m.group(2), what=m.group(3)))
    except OSError:
        pass
    return out


def shrink(case, still_fails):
    """the shortest failing prefix (whole lines) of a judged stream: a prefix of a protocol stream still follows the
    protocol, which deleting inner words or lines would not guarantee.  still_fails(candidates) -> list of bool"""
    df, sl = case["judged"]; ta = case["talign"]
    def mk(sl2):
        scc = "\n".join(tc_text(lab, df) + "\t" + " ".join("%04x" % w for w in ws) + "\n" for lab, ws in sl2)
        return dict(talign=ta, scc=scc, judged=(df, sl2), kind=case.get("kind"))
    cands = [mk(sl[:k]) for k in range(1, len(sl))]
    if not cands: return case
    flags = still_fails(cands)
    for c, f in zip(cands, flags):
        if f: return c
    return case


def main():
    from concurrent.futures import ProcessPoolExecutor
    import gen_tables
    run = C.Run("C08", "proof")
    listed = {f["id"] for f in run.findings}
    run.findings += [f for f in proposed_findings() if f["id"] not in listed]
    run.hygiene()
    sys.path.insert(0, C.SRC)
    changed, errors = gen_tables.generate({"SccTables"})
    if errors:
        run.violation("table translator failed closed: " + "; ".join(errors), dict(kind="translator", errors=errors), False)
        return run.finish()
    ok, log = run.build(PROOF_TARGETS, clean=(run.tier == "thorough"))
    proofs_ok = ok and run.theorems()
    if not ok: run.proof_log = log[-2500:]
    run.witnesses()
    rc, out = C.coqc(C.COQ + "/Findings/C08.v", 900)
    if rc != 0: run.cov["stale_findings"] = ["Findings/C08.v no longer compiles: " + out[-300:]]

    # ---- inputs --------------------------------------------------------------------------------
    rng = run.rng
    n_proto, n_wild, n_dir = (300, 100, 40) if run.tier == "quick" else (7500, 2500, 1000)
    cases = []
    for s in test_file_streams():
        for ta in (-1, 0, 1, 2, 3):
            # the repository's literal streams exercise edge cases outside the protocols (text before any PAC, rows longer
            # than 32 columns, ...): they are compared with M (oracle 1) and not judged by S
            cases.append(dict(talign=ta, scc=s, kind="seed", judged=None))
    kinds = ["popon", "popon", "rollup", "painton", "mixed"]
    for i in range(n_proto):
        st = gen_protocol(rng, kinds[i % len(kinds)])
        scc = st.scc()
        cases.append(dict(talign=rng.randrange(4), scc=scc, kind=st.kind, judged=parse_scc_single_rate(scc), dbl=st.dbl))
    for i in range(n_wild):
        st = gen_wild(rng)
        cases.append(dict(talign=rng.randrange(4), scc=st.scc(), kind="wild", judged=None))
    # directed streams for the repaired paths (drawn after the others: the streams above are those of earlier versions of the check)
    for i in range(n_dir):
        st = gen_no_caption(rng) if i % 2 == 0 else gen_paint_flip(rng)
        scc = st.scc()
        cases.append(dict(talign=rng.randrange(4), scc=scc, kind=st.kind, judged=parse_scc_single_rate(scc) if st.judged else None, dbl=st.dbl))
    rp = os.environ.get("VERIF_REPLAY")
    if rp:
        try:
            r = json.load(open(rp))["replay"]
            cases.insert(0, dict(talign=r.get("talign", 0), scc=r["scc"], kind="replay", judged=parse_scc_single_rate(r["scc"])))
        except Exception as e:
            run.log("replay file not usable:", e)

    # ---- the implementation ----------------------------------------------------------------------
    with ProcessPoolExecutor(C.NCPU) as ex:
        docs_reach = list(ex.map(impl_reach_job, [(c["talign"], c["scc"]) for c in cases], chunksize=50))
    docs = [d for d, _ in docs_reach]
    reach_hist = {}
    for c, (_, rc_) in zip(cases, docs_reach):
        c["reach"] = rc_
        for k, n in rc_.items():
            if n: reach_hist.setdefault(k, {}); reach_hist[k][c["kind"]] = reach_hist[k].get(c["kind"], 0) + 1
    harness_bad = []
    for c, d in zip(cases, docs):
        if d[0] == "noncanonical":
            harness_bad.append((c, d[1])); c["doc"] = ("err", "noncanonical")
        else:
            c["doc"] = d
    # a judged case must produce a document: a protocol stream on which the reader raises is a failure of the property
    raised = [c for c in cases if c["judged"] and c["doc"][0] == "err"]

    broken = evaluate("Cases_C08_", cases)
    n_eval = sum(1 for c in cases if "model_ok" in c)
    styles, aligns = aux_cases(rng, [c["scc"] for c in cases])
    aux = evaluate_aux(styles, aligns)
    if aux is None:
        run.violation("the case file for SccLine.get_style / TextAlignment.from_value did not evaluate",
                      dict(kind="broken-tie", correspondence="Model/SccReader.v line_style, text_align_of"), found_input=False)
    else:
        n_eval += aux[0]
        if aux[1] or aux[2]:
            run.violation(f"Model/SccReader.v line_style / text_align_of disagree with SccLine.get_style / TextAlignment.from_value on "
                          f"{len(aux[1])} lines and {len(aux[2])} labels", dict(kind="broken-tie", style_cases=aux[1][:5], align_cases=aux[2][:5]), found_input=False)
    m_bad = [c for c in cases if c.get("model_ok") is False]
    p_bad = [c for c in cases if c.get("parse_ok") is False]
    verdicts = {}; verdicts_by_kind = {}
    viol, known_hist = [], {}
    for c in cases:
        if not c["judged"] or "codes" not in c: continue
        v = judge(c["codes"]); c["verdict"] = v
        verdicts[v[0]] = verdicts.get(v[0], 0) + 1
        verdicts_by_kind.setdefault(c["kind"], {}); verdicts_by_kind[c["kind"]][v[0]] = verdicts_by_kind[c["kind"]].get(v[0], 0) + 1
        if v[0] == "known":
            for fid in v[1]: known_hist[fid] = known_hist.get(fid, 0) + 1
        elif v[0] == "violation":
            viol.append(c)
    # the class of the pop-on display theorem (Properties/C08.v C08_popon_display): on a stream of the class the model's document
    # equals the reference display at every stable frame, the code's document equals the model's (oracle 1), so the strict
    # oracle must accept the code's document; anything else means the tie or the theorem's reading of S is broken
    class_hist = {}
    thm_bad = []
    for c in cases:
        if not c["judged"] or "codes" not in c: continue
        k = c["codes"][11]; key = c["kind"] + ":" + {0: "outside", 1: "pop-on class with doubled codes", 2: "display theorem class", 3: "roll-up memory theorem class"}.get(k, str(k))
        class_hist[key] = class_hist.get(key, 0) + 1
        if k == 2 and c["codes"][0] != NONE_CODE and c.get("model_ok") is not False: thm_bad.append(c)
    run.log(f"{len(cases)} streams ({sum(1 for c in cases if c['judged'])} judged by S): model/code mismatches {len(m_bad)}, "
            f"parse mismatches {len(p_bad)}, S verdicts {verdicts}, broken case files {len(broken)}")
    reach_total = {k: sum(v.values()) for k, v in reach_hist.items()}
    run.log("repaired paths reached (streams): " + ", ".join(f"{k} {reach_total.get(k, 0)} {reach_hist.get(k, {})}"
                                                             for k in ("code_without_caption", "painton_text_before_paragraph")))
    for k in ("code_without_caption", "painton_text_before_paragraph"):
        if not reach_total.get(k):
            run.violation(f"harness: no generated stream drives the implementation through the repaired path {k}",
                          dict(kind="harness", why="generator coverage", path=k), found_input=False)
    for fid, n in sorted(known_hist.items()):
        run.known(fid, f"{n} generated streams")
        if fid not in {f["id"] for f in run.findings}:
            run.violation(f"finding {fid} is not listed", dict(kind="unlisted-finding", id=fid), False)

    def replay_of(c, extra=None):
        d = dict(kind="S-on-code", scc=c["scc"], talign=c["talign"], text_align=TALIGN[c["talign"]], stream_kind=c.get("kind"),
                 oracle_codes=c.get("codes"), spec="coq/Spec/Cea608Screen.v (oracle dev0 0 0 = S_word)",
                 how="PYTHONPATH=/repo/src/main/python python -c 'import ttconv.scc.reader as r; print(r.to_model(open(F).read()))'")
        if extra: d.update(extra)
        return d

    if viol:
        c = viol[0]
        def still_fails(cands):
            with ProcessPoolExecutor(C.NCPU) as ex:
                ds = list(ex.map(impl_job, [(x["talign"], x["scc"]) for x in cands]))
            for x, d in zip(cands, ds): x["doc"] = d if d[0] != "noncanonical" else ("err", "noncanonical")
            evaluate("Cases_C08_shrink_", cands)
            return ["codes" in x and judge(x["codes"])[0] == "violation" for x in cands]
        try:
            small = shrink(c, still_fails)
        except Exception as e:
            small = c; run.log("shrinking failed:", e)
        f = c["verdict"][1]
        run.violation(f"SCC reader disagrees with the reference CEA-608 decoder outside every recorded finding: first rejected frame {f} "
                      f"(stream kind {c.get('kind')}, {len(viol)} such streams)",
                      replay_of(small, dict(original=c["scc"], first_rejected_frame=f, count=len(viol),
                                            others=[x["scc"] for x in viol[1:4]])))
    if thm_bad:
        c = thm_bad[0]
        run.violation(f"a stream of the class of theorem C08_popon_display is rejected by the strict oracle at frame {c['codes'][0]} "
                      f"({len(thm_bad)} such streams): the theorem and the oracle disagree about S", replay_of(c, dict(count=len(thm_bad))))
    if raised:
        c = raised[0]
        run.violation(f"the reader raises {c['doc'][1]} on a stream that follows the protocol", replay_of(c, dict(count=len(raised))))
    if harness_bad:
        c, why = harness_bad[0]
        run.violation("harness: implementation output has a shape the canonicaliser does not know: " + why,
                      dict(kind="harness", scc=c["scc"], talign=c["talign"], why=why), found_input=False)
    if (m_bad or p_bad or broken or not proofs_ok) and not viol:
        what = []
        if not proofs_ok: what.append("theorems of coq/Properties/C08.v no longer check: " + getattr(run, "proof_log", "")[-500:])
        if m_bad: what.append(f"correspondence Model/SccReader.v vs ttconv.scc.reader.to_model disagrees on {len(m_bad)} streams")
        if p_bad: what.append(f"harness parse vs Model from_str / frame count disagrees on {len(p_bad)} streams")
        if broken: what.append(f"case files did not evaluate: {broken[0]}")
        first = (m_bad or p_bad or [None])[0]
        run.violation("; ".join(what), dict(kind="broken-tie", theorem_file="coq/Properties/C08.v", proofs_ok=proofs_ok,
                                            correspondence="Model/SccReader.v to_model vs ttconv.scc.reader.to_model",
                                            first_input=None if first is None else dict(scc=first["scc"], talign=first["talign"])),
                      found_input=False)

    kinds_hist = {}
    for c in cases: kinds_hist[c["kind"]] = kinds_hist.get(c["kind"], 0) + 1
    outcome_hist = {}
    for c in cases:
        k = "document" if c["doc"][0] == "ok" else c["doc"][1]
        outcome_hist[k] = outcome_hist.get(k, 0) + 1
    words = sum(len(ws) for c in cases if c["judged"] for _, ws in c["judged"][1])
    distinct = len({json.dumps(c["doc"], default=str) for c in cases})
    run.cov.update(evaluations=n_eval + sum(1 for c in cases if "codes" in c), distinct_nontrivial=distinct,
                   rule="streams from three protocol grammars (pop-on, roll-up, paint-on, and sequences of them; any row / indent / tab, "
                        "1-4 rows, standard / special / extended characters, PAC and mid-row attributes, optional ENM / EDM, channel-2 "
                        "blocks, null padding, parity set or cleared, DF and NDF time codes near minute boundaries, doubled / single / "
                        "mixed control codes) x text_align, plus unconstrained word streams (every class, both channels, malformed words, "
                        "mixed rates), the literal streams of test_scc_reader.py, and directed streams for the two repaired paths: backspace / tab "
                        "offset / extended character while no caption is being processed (roll-up or paint-on style, nothing displayed; "
                        "oracle 1 only) and paint-on captions moved to the non-displayed memory by an EOC and displayed again by a later "
                        "one (text painted before the paragraph begins; judged by S) - repaired_paths_reached counts, on the running "
                        "implementation, the streams that take each path.  Oracle 1: Model/SccReader.v to_model = "
                        "ttconv.scc.reader.to_model on every stream (inside Coq).  Oracle 2: the reference decoder of "
                        "Spec/Cea608Screen.v against the implementation's document at every frame, on the protocol streams. "
                        "distinct_nontrivial = number of distinct documents.",
                   samples=[dict(kind=c["kind"], scc=c["scc"][:400], verdict=c.get("verdict")) for c in cases[len(cases) // 3:len(cases) // 3 + 3]],
                   stream_kinds=kinds_hist, outcomes=outcome_hist, judged_words=words, s_verdicts=verdicts, findings_hit=known_hist,
                   model_code_mismatches=len(m_bad), strictly_accepted=verdicts.get("ok", 0), display_theorem_class=class_hist,
                   aux_cases=dict(get_style_lines=len(styles), from_value_labels=len(aligns)),
                   repaired_paths_reached=reach_hist, s_verdicts_by_kind=verdicts_by_kind)
    run.assumptions += ["S (Spec/Cea608Screen.v) is a reading of CTA-608-E sections 6-7 / 47 CFR 15.119; word attributes come from the C17-verified decoder",
                        "the harness canonicalises the ContentDocument (harness/c08.py canon_doc) and parses the generated files for S (parse_scc_single_rate; cross-checked against M's from_str inside Coq)",
                        "str.splitlines is applied by the harness, not modelled",
                        "recorded findings are delimited by executable triggers (Spec/Cea608Screen.v triggers, Model/SccReaderCases.v region_above); two of them (pac-left-of-row-content, rollup-text-after-edm-row0) excuse a stream as a whole"]
    return run.finish(["harness/gen_tables.py (table translator, fail-closed)", "coq/Model/SccWord.v decode (C17)", "coq/Model/TimeCode.v (C12)"])


if __name__ == "__main__":
    sys.exit(main())
