"""C10 - the SRT reader reproduces every cue's time, lines and formatting exactly.

Theorems: coq/Properties/C10.v (exact times for every digit string of the pattern and every clock of the grammar;
round trip read(print f) = cues f for EVERY grammar-conforming file through either kind of stream; tag scoping
for one cue text; tolerance of counters / blank runs / hour width / white space / terminators / stream; reading
every text of the form the SRT writer emits returns the cues written; no exception but ValueError).  No finding is
recorded (coq/Findings/C10.v holds no statement).

Ties, all evaluated inside Coq on generated case files:
  * M = code : Model/SrtReader.v `to_model` against ttconv.srt.reader.to_model on (a) files printed from
    random abstract cue files of the grammar of Spec/SrtCueSpec.v, (b) outputs of ttconv.srt.writer
    over random documents built with the ttconv.model API, (c) a mutation stream (grammar files with
    snippets inserted / deleted / duplicated, hand-made cues of odd tags, entities, colours), (d) an
    unconstrained stream (no cue structure imposed: tags of any name balanced or not, brace tags, CR / LF /
    CR LF / LF CR mixtures, BOM, blank-looking lines, counters and timing lines in any place).
    Compared: None / exception class / per paragraph begin and end (type must be Fraction or int, value
    exact) and the whole Span/Br/Text tree with the styles specified on each span.
  * S on the code : for (a) and (b) the flattened styled characters of the implementation's result must
    equal `cues f`; the text fed to the implementation is checked to be `print_file f` with `wf_file f`.
    For (b) in addition the output is parsed into the writer description (Spec/SrtWriterOut.v `list wcue`),
    Coq checks `wprint cs = output` and `wwf cs`, and the result read must equal `map wmeaning cs`.
"""
import io, os, re, sys, json, logging
from fractions import Fraction
import common as C
import gen_tables

PROP = "C10"

# ------------------------------------------------------------------------------------------------
# abstract cue files (mirror of Spec/SrtCueSpec.v; the printer below is re-checked in Coq against
# print_file on every case, so it is not trusted)
# ------------------------------------------------------------------------------------------------
SPEC_COLORS = ["transparent", "black", "silver", "gray", "white", "maroon", "red", "purple", "fuchsia", "magenta",
               "green", "lime", "olive", "yellow", "navy", "blue", "teal", "aqua", "cyan"]
SPEC_RGBA = {"transparent": (0, 0, 0, 0), "black": (0, 0, 0, 255), "silver": (192, 192, 192, 255), "gray": (128, 128, 128, 255),
             "white": (255, 255, 255, 255), "maroon": (128, 0, 0, 255), "red": (255, 0, 0, 255), "purple": (128, 0, 128, 255),
             "fuchsia": (255, 0, 255, 255), "magenta": (255, 0, 255, 255), "green": (0, 128, 0, 255), "lime": (0, 255, 0, 255),
             "olive": (128, 128, 0, 255), "yellow": (255, 255, 0, 255), "navy": (0, 0, 128, 255), "blue": (0, 0, 255, 255),
             "teal": (0, 128, 128, 255), "aqua": (0, 255, 255, 255), "cyan": (0, 255, 255, 255)}
TAGNAMES = {("KB", "AngleShort"): "b", ("KI", "AngleShort"): "i", ("KU", "AngleShort"): "u",
            ("KB", "BraceShort"): "b", ("KI", "BraceShort"): "i", ("KU", "BraceShort"): "u",
            ("KB", "AngleUpper"): "B", ("KI", "AngleUpper"): "I", ("KU", "AngleUpper"): "U",
            ("KB", "AngleLong"): "bold", ("KI", "AngleLong"): "italic", ("KU", "AngleLong"): "underline",
            ("KB", "BraceLong"): "bold", ("KI", "BraceLong"): "italic", ("KU", "BraceLong"): "underline"}
WS = set([9, 10, 11, 12, 13, 28, 29, 30, 31, 32, 133, 160, 5760] + list(range(8192, 8203)) + [8232, 8233, 8239, 8287, 12288])
REFS = {"RAmp": "&amp;", "RLt": "&lt;", "RGt": "&gt;", "RQuot": "&quot;", "RNbsp": "&nbsp;"}


def p_colspec(c):
    if c[0] == "h6":
        _, r, g, b, up = c; s = "#%02x%02x%02x" % (r, g, b); return s.upper() if up else s
    if c[0] == "h8":
        _, r, g, b, a, up = c; s = "#%02x%02x%02x%02x" % (r, g, b, a); return s.upper() if up else s
    _, i, up = c; return SPEC_COLORS[i].upper() if up else SPEC_COLORS[i]

def p_open(k, sy):
    n = TAGNAMES[(k, sy)]
    return ("{%s}" if sy.startswith("Brace") else "<%s>") % n

def p_close(k, sy):
    n = TAGNAMES[(k, sy)]
    return ("{/%s}" if sy.startswith("Brace") else "</%s>") % n

def p_node(n):
    t = n[0]
    if t == "c": return chr(n[1])
    if t == "r":
        if n[1] == "RDec": return "&#%d;" % n[2]
        if n[1] == "RHex": return "&#x%x;" % n[2]
        return REFS[n[1]]
    if t == "br": return "\n"
    if t == "t": return p_open(n[1], n[2]) + "".join(p_node(x) for x in n[3]) + p_close(n[1], n[2])
    if t == "f":
        q = {"QDouble": '"', "QSingle": "'", "QBare": ""}[n[2]]
        return '<font color=' + q + p_colspec(n[1]) + q + ">" + "".join(p_node(x) for x in n[3]) + "</font>"
    if t == "s": return p_close(n[1], n[2])
    raise ValueError(n)

def p_nodes(ns): return "".join(p_node(n) for n in ns)

def p_hours(h, w):
    """h in w digits (w may exceed the interpreter's limit for int -> str conversion, so no % formatting)"""
    ds = []
    for _ in range(w): ds.append(chr(48 + h % 10)); h //= 10
    return "".join(reversed(ds))

def p_clock(k):
    h, w, m, s, ms = k
    return p_hours(h, w) + ":%02d:%02d,%03d" % (m, s, ms)

def cue_lines(c):
    return [c["counter"], p_clock(c["begin"]) + c["ws1"] + "-->" + c["ws2"] + p_clock(c["end"]) + c["tail"]] + \
           p_nodes(c["payload"]).split("\n") + c["blank"]

def print_file(f):
    lines = list(f["lead"])
    for c in f["cues"]: lines += cue_lines(c)
    e = "\r\n" if f["crlf"] else "\n"
    if not lines: return ""
    return e.join(lines) + (e if f["final_eol"] else "")

# ---- Coq literals of the AST
def l_text(s): return C.text(s)
def l_colspec(c):
    if c[0] == "h6": return f"(CHex6 {c[1]} {c[2]} {c[3]} {C.boolean(c[4])})"
    if c[0] == "h8": return f"(CHex8 {c[1]} {c[2]} {c[3]} {c[4]} {C.boolean(c[5])})"
    return f"(CNamed {c[1]}%nat {C.boolean(c[2])})"
def l_node(n):
    t = n[0]
    if t == "c": return f"NChar {n[1]}"
    if t == "r": return f"NRef ({n[1]} {n[2]})" if n[1] in ("RDec", "RHex") else f"NRef {n[1]}"
    if t == "br": return "NBreak"
    if t == "t": return f"NTag {n[1]} {n[2]} {l_nodes(n[3])}"
    if t == "f": return f"NFont {l_colspec(n[1])} {n[2]} {l_nodes(n[3])}"
    if t == "s": return f"NStray {n[1]} {n[2]}"
def l_nodes(ns): return "[" + ";".join(l_node(n) for n in ns) + "]"
def l_clock(k): return f"(mkClock {l_big(k[0])} {k[1]}%nat {k[2]} {k[3]} {k[4]})"
def l_big(n):
    """a Z literal of a non-negative number; beyond the interpreter's int -> str limit it is written as a sum of 4000-digit pieces
    (the limit itself must stay as it is: the implementation runs in this process and its int() obeys it)"""
    if n < 10 ** 4000: return str(n)
    q, r = divmod(n, 10 ** 4000)
    return f"({l_big(q)} * 10 ^ 4000 + {r})"
def l_z(n): return l_big(n) if n >= 0 else f"(- {l_big(-n)})"
def big_str(n):
    """str(n) without the limit"""
    if n < 0: return "-" + big_str(-n)
    if n < 10 ** 4000: return str(n)
    q, r = divmod(n, 10 ** 4000)
    return big_str(q) + str(r).zfill(4000)
def frac_str(x): return big_str(x.numerator) + ("" if x.denominator == 1 else "/" + str(x.denominator))
def l_cue(c):
    return (f"(mkCue {l_text(c['counter'])} {l_clock(c['begin'])} {l_text(c['ws1'])} {l_text(c['ws2'])} {l_clock(c['end'])} "
            f"{l_text(c['tail'])} {l_nodes(c['payload'])} [{';'.join(l_text(b) for b in c['blank'])}])")
def l_file(f):
    return (f"(mkFile [{';'.join(l_text(b) for b in f['lead'])}] [{';'.join(l_cue(c) for c in f['cues'])}] "
            f"{C.boolean(f['crlf'])} {C.boolean(f['final_eol'])})")

# ---- python mirror of `cues` (only used for replay files / samples, never for the verdict)
def node_has(ns, pred):
    for n in ns:
        if pred(n): return True
        if n[0] in ("t", "f") and node_has(n[3], pred): return True
    return False

# ------------------------------------------------------------------------------------------------
# generators
# ------------------------------------------------------------------------------------------------
ALPHA_COMMON = "abcdefghijklmnopqrstuvwxyzABCDEFGHIJKLMNOPQRSTUVWXYZ0123456789      .,!?'-"
ALPHA_PUNCT = ">;}/=\"'\\:#()[]*+_%$@^~|`"
ALPHA_WIDE = "éèüßñЖд中文日本語الע♪—“”\U0001F600\U0001F3B5Kİ"
ALPHA_SPACE = "\t 　 \x0b\x0c\x1c\x85 "


def gen_char(rng):
    x = rng.random()
    if x < 0.75: return rng.choice(ALPHA_COMMON)
    if x < 0.87: return rng.choice(ALPHA_PUNCT)
    if x < 0.96: return rng.choice(ALPHA_WIDE)
    return rng.choice(ALPHA_SPACE)


def gen_colspec(rng):
    x = rng.random()
    if x < 0.35: return ("h6", rng.randrange(256), rng.randrange(256), rng.randrange(256), rng.random() < 0.3)
    if x < 0.6: return ("h8", rng.randrange(256), rng.randrange(256), rng.randrange(256), rng.choice([0, 255, 255, rng.randrange(256)]), rng.random() < 0.3)
    return ("n", rng.randrange(len(SPEC_COLORS)), rng.random() < 0.2)


def long_syn(sy): return sy in ("AngleLong", "BraceLong")

def gen_nodes(rng, depth, st, ctx=None):
    """st: dict with remaining line breaks `br`, feature switches; ctx = (kind, syntax) of the directly enclosing b/i/u tag"""
    out = []
    for _ in range(rng.choice([1, 1, 2, 2, 3, 4])):
        x = rng.random()
        if x < 0.45 or depth >= 4:
            out += [("c", ord(gen_char(rng))) for _ in range(rng.choice([1, 2, 3, 5, 8, 13]))]
        elif x < 0.52 and st["refs"]:
            k = rng.choice(["RAmp", "RLt", "RGt", "RQuot", "RNbsp", "RDec", "RHex"])
            if k in ("RDec", "RHex"):
                n = rng.choice([rng.randrange(32, 127), rng.randrange(160, 0x300), rng.randrange(0x3000, 0xD7FF), 38, 60, 123, 55295, 160, 126, 32])
                out.append(("r", k, n))
            else: out.append(("r", k, ""))
        elif x < 0.60 and st["br"] > 0:
            st["br"] -= 1; out.append(("br",))
        elif x < 0.82 and st["tags"]:
            sy = rng.choice(st["syn"]); k = rng.choice(["KB", "KI", "KU"])
            out.append(("t", k, sy, gen_nodes(rng, depth + 1, st, (k, sy))))
        elif x < 0.93 and st["tags"]:
            out.append(("f", gen_colspec(rng), rng.choice(["QDouble", "QDouble", "QSingle", "QBare"]), gen_nodes(rng, depth + 1, st)))
        elif st["stray"] and rng.random() < 0.5:
            k = rng.choice(["KB", "KI", "KU"]); sy = rng.choice(["AngleShort", "AngleLong", "AngleUpper", "BraceLong", "BraceShort"])
            # a closer that closes nothing must not name the directly enclosing tag (Spec: stray_ok)
            if ctx is None or not (ctx[0] == k and long_syn(ctx[1]) == long_syn(sy)): out.append(("s", k, sy))
            else: out.append(("c", ord(gen_char(rng))))
        else:
            out.append(("c", ord(gen_char(rng))))
    return out


def payload_ok(ns):
    lines = p_nodes(ns).split("\n")
    return all(any(ord(ch) not in WS for ch in l) for l in lines)


def gen_payload(rng, feat):
    for _ in range(50):
        st = dict(feat); st["br"] = rng.choice([0, 0, 0, 1, 1, 2, 3, 4])
        ns = gen_nodes(rng, 0, st)
        if feat.get("backslash") and rng.random() < 0.5:
            k = rng.randrange(len(ns) + 1); ns[k:k] = [("c", 92), ("c", 110), ("c", 92), ("c", 114)]
        if payload_ok(ns): return ns
    return [("c", 120)]


MAX_HOUR_DIGITS = 4300          # Spec/SrtCueSpec.v max_hour_digits (= sys.get_int_max_str_digits() of the interpreter)

def gen_clock(rng, width=None):
    """(hours, width of the hour field >= 2, minutes, seconds, milliseconds)"""
    if width is None:
        x = rng.random()
        width = 2 if x < 0.6 else 3 if x < 0.75 else rng.choice([4, 4, 5, 6]) if x < 0.9 else rng.randrange(7, 25) if x < 0.9995 else rng.choice([MAX_HOUR_DIGITS, 640, 1000])
    if width == 2: h = rng.choice([0, 0, 0, 1, rng.randrange(0, 24), rng.randrange(0, 100), 99])
    elif width > 24:      # long fields: mostly leading zeros (evaluating the printed form of a number of thousands of digits inside Coq takes minutes)
        h = rng.choice([0, 7, 1000, 10 ** rng.randrange(3, 40) - 1, rng.randrange(0, 10 ** 40), rng.randrange(0, 10 ** min(width, 300)), 10 ** min(width, 300) - 1])
    else: h = rng.choice([0, 7, 99, 100, 999, 1000, 10 ** (width - 1), 10 ** width - 1, rng.randrange(0, 10 ** width), rng.randrange(0, 10 ** width)])
    if h >= 10 ** width: h = 10 ** width - 1
    m = rng.choice([0, 59, rng.randrange(60), rng.randrange(60), rng.randrange(100), 99])
    s = rng.choice([0, 59, rng.randrange(60), rng.randrange(60), rng.randrange(100), 99])
    ms = rng.choice([0, 999, 280, 70, 1, rng.randrange(1000), rng.randrange(1000), rng.randrange(1000)])
    return (h, width, m, s, ms)


def gen_file(rng, feat):
    ncues = rng.choice([1, 1, 1, 2, 2, 3, 3, 4, 5, 6, 8, 10, 15, 25, 50])
    if feat.get("small"): ncues = min(ncues, 4)
    cues = []
    for i in range(ncues):
        x = rng.random()
        if x < 0.7: counter = str(i + 1)
        elif x < 0.8: counter = str(rng.randrange(0, 10 ** rng.randrange(1, 12)))
        elif x < 0.9: counter = rng.choice(["", " ", "\t", "#"]) + str(rng.randrange(1000)).zfill(rng.randrange(1, 5)) + rng.choice(["", " ", "  ", "."])
        else: counter = rng.choice(["cue ", "﻿", "0", "-"]) + str(rng.randrange(100))
        ws = lambda: rng.choice([" ", " ", " ", " ", "  ", "\t", " \t ", "   "])
        tail = rng.choice([""] * 8 + ["  X1:100 X2:200 Y1:050 Y2:100", " ", "\t", " align:start", "x", ",5"])
        blank = rng.choice([[""]] * 8 + [["", ""], [" "], ["\t", ""], ["", "", "", ""], ["  ", " "]])
        cues.append(dict(counter=counter, begin=gen_clock(rng), ws1=ws(), ws2=ws(), end=gen_clock(rng), tail=tail,
                         payload=gen_payload(rng, feat), blank=blank))
    if cues and rng.random() < 0.3: cues[-1]["blank"] = []
    lead = rng.choice([[]] * 6 + [[""], ["", ""], [" "], ["\t", "", " "]])
    return dict(lead=lead, cues=cues, crlf=rng.random() < 0.3, final_eol=rng.random() < 0.85)


def gen_features(rng):
    x = rng.random()
    feat = dict(tags=True, refs=True, stray=False, backslash=False, syn=["AngleShort", "AngleShort", "AngleLong", "AngleUpper", "BraceLong", "BraceShort"])
    if x < 0.15: feat.update(tags=False, refs=False)                 # plain text only
    elif x < 0.25: feat.update(refs=False)
    elif x < 0.45: feat["stray"] = True                               # closers that close nothing
    elif x < 0.50: feat["backslash"] = True                           # the four characters \n\r as text
    return feat


# ---- documents for the SRT writer
def gen_doc(rng):
    import ttconv.model as m, ttconv.style_properties as s
    SP = s.StyleProperties
    d = m.ContentDocument()
    r = m.Region("r1", d); d.put_region(r)
    b = m.Body(d); d.set_body(b); b.set_region(r)
    t = Fraction(rng.randrange(0, 5000), 1000)
    if rng.random() < 0.1: t += rng.choice([3600, 36000, 360000 - 40, 99 * 3600])
    if rng.random() < 0.06: t += rng.choice([3600000 - 2, 3600000, 999 * 3600 + 3590, 12345 * 3600, 10 ** rng.randrange(7, 30) * 3600 - 1])     # around and beyond 999 h
    def styled(e):
        if rng.random() < 0.3: e.set_style(SP.FontWeight, s.FontWeightType.bold)
        if rng.random() < 0.3: e.set_style(SP.FontStyle, s.FontStyleType.italic)
        if rng.random() < 0.25: e.set_style(SP.TextDecoration, s.TextDecorationType(underline=True))
        if rng.random() < 0.3:
            e.set_style(SP.Color, rng.choice([s.NamedColors.red.value, s.NamedColors.white.value,
                                              s.ColorType((rng.randrange(256), rng.randrange(256), rng.randrange(256), rng.choice([255, 255, rng.randrange(256)])))]))
    def text(n=None):
        n = n or rng.choice([1, 2, 4, 7, 12])
        alpha = ALPHA_COMMON + ALPHA_COMMON + ">;}/='\\" + ALPHA_WIDE
        if rng.random() < 0.04: alpha += "<&{"
        return "".join(rng.choice(alpha) for _ in range(n))
    for _ in range(rng.choice([1, 1, 2])):
        dv = m.Div(d); b.push_child(dv)
        for _ in range(rng.choice([1, 1, 2, 3, 4])):
            p = m.P(d); dv.push_child(p)
            if rng.random() < 0.9:
                dur = Fraction(rng.randrange(1, 6000), 1000) if rng.random() < 0.85 else Fraction(rng.randrange(1, 9000), rng.choice([3, 7, 24, 30, 1001]))
                p.set_begin(t); p.set_end(t + dur)
                t = t + dur + (Fraction(rng.randrange(0, 2000), 1000) if rng.random() < 0.7 else -dur / 2)
            if rng.random() < 0.2: styled(p)
            for _ in range(rng.choice([1, 1, 2, 3, 4])):
                sp = m.Span(d); p.push_child(sp); styled(sp)
                if rng.random() < 0.3:
                    inner = m.Span(d); sp.push_child(inner); styled(inner); inner.push_child(m.Text(d, text()))
                    if rng.random() < 0.3: sp.push_child(m.Br(d)); s2 = m.Span(d); sp.push_child(s2); s2.push_child(m.Text(d, text()))
                else:
                    sp.push_child(m.Text(d, text()))
                if rng.random() < 0.3: p.push_child(m.Br(d))
    return d


TC_RE = re.compile(r"^([0-9]{2,}):([0-9]{2}):([0-9]{2}),([0-9]{3}) --> ([0-9]{2,}):([0-9]{2}):([0-9]{2}),([0-9]{3})$")
TAG_RE = re.compile(r'<(b|i|u)>|</(b|i|u|font)>|<font color="#([0-9a-f]{8})">')

def deparse_payload(txt):
    """writer payload -> node forest, or None when the text is outside the grammar"""
    root = []; stack = [("root", root)]
    i = 0
    while i < len(txt):
        ch = txt[i]
        if ch == "<":
            mt = TAG_RE.match(txt, i)
            if not mt: return None
            if mt.group(1):
                node = ["t", "K" + mt.group(1).upper(), "AngleShort", []]; stack[-1][1].append(node); stack.append((mt.group(1), node[3]))
            elif mt.group(3):
                v = mt.group(3); node = ["f", ("h8", int(v[0:2], 16), int(v[2:4], 16), int(v[4:6], 16), int(v[6:8], 16), False), "QDouble", []]
                stack[-1][1].append(node); stack.append(("font", node[3]))
            else:
                if len(stack) < 2 or stack[-1][0] != mt.group(2): return None
                stack.pop()
            i = mt.end(); continue
        if ch in "&{" or ch == "\r": return None
        stack[-1][1].append(("br",) if ch == "\n" else ("c", ord(ch)))
        i += 1
    if len(stack) != 1: return None
    def fix(ns): return [tuple(fix(x) if isinstance(x, list) else x for x in n) if n[0] in ("t", "f") else n for n in ns]
    return fix(root)

def deparse(txt):
    """SRT writer output -> abstract file, or None"""
    if txt == "": return dict(lead=[], cues=[], crlf=False, final_eol=False)
    if not txt.endswith("\n") or "\r" in txt: return None
    blocks = txt[:-1].split("\n\n")
    cues = []
    for k, b in enumerate(blocks):
        ls = b.split("\n")
        if len(ls) < 3 or not ls[0].isascii() or not ls[0].isdigit(): return None
        mt = TC_RE.match(ls[1])
        if not mt or len(mt.group(1)) > MAX_HOUR_DIGITS or len(mt.group(5)) > MAX_HOUR_DIGITS: return None
        g = mt.groups()
        payload = deparse_payload("\n".join(ls[2:]))
        if payload is None or not payload_ok(payload): return None
        cues.append(dict(counter=ls[0], begin=(int(g[0]), len(g[0]), int(g[1]), int(g[2]), int(g[3])), ws1=" ", ws2=" ",
                         end=(int(g[4]), len(g[4]), int(g[5]), int(g[6]), int(g[7])), tail="", payload=payload,
                         blank=[] if k == len(blocks) - 1 else [""]))
    f = dict(lead=[], cues=cues, crlf=False, final_eol=True)
    return f if print_file(f) == txt else None


# ---- the writer's output as the abstract description of Spec/SrtWriterOut.v (list wcue); None when it is not of that form
WTC_RE = re.compile(r"^([0-9]{2,}):([0-9]{2}):([0-9]{2}),([0-9]{3}) --> ([0-9]{2,}):([0-9]{2}):([0-9]{2}),([0-9]{3})$")

def deparse_w(txt):
    if txt == "": return []
    if not txt.endswith("\n") or "\r" in txt: return None
    cues = []
    for b in txt[:-1].split("\n\n"):
        ls = b.split("\n")
        if len(ls) < 3 or not ls[0].isascii() or not ls[0].isdigit(): return None
        mt = WTC_RE.match(ls[1])
        if not mt or len(mt.group(1)) > MAX_HOUR_DIGITS or len(mt.group(5)) > MAX_HOUR_DIGITS: return None
        g = [int(x) for x in mt.groups()]
        if (len(mt.group(1)) > 2 and mt.group(1)[0] == "0") or (len(mt.group(5)) > 2 and mt.group(5)[0] == "0"): return None
        payload = deparse_payload("\n".join(ls[2:]))
        if payload is None or not payload_ok(payload): return None
        def wn(ns):
            out = []
            for n in ns:
                if n[0] == "c": out.append(("c", n[1]))
                elif n[0] == "br": out.append(("br",))
                elif n[0] == "t": out.append(({"KB": "WBold", "KI": "WItalic", "KU": "WUnder"}[n[1]], wn(n[3])))
                elif n[0] == "f": out.append(("WFont", n[1][1:5], wn(n[3])))
                else: return None
                if out[-1] is None or (len(out[-1]) > 1 and out[-1][-1] is None): return None
            return out
        wp = wn(payload)
        if wp is None: return None
        cues.append(dict(counter=ls[0], begin=((g[0] * 60 + g[1]) * 60 + g[2]) * 1000 + g[3], end=((g[4] * 60 + g[5]) * 60 + g[6]) * 1000 + g[7], payload=wp))
    return cues

def l_wnodes(ns):
    out = []
    for n in ns:
        if n[0] == "c": out.append(f"WChar {n[1]}")
        elif n[0] == "br": out.append("WBreak")
        elif n[0] == "WFont": out.append(f"WFont {n[1][0]} {n[1][1]} {n[1][2]} {n[1][3]} {l_wnodes(n[2])}")
        else: out.append(f"{n[0]} {l_wnodes(n[1])}")
    return "[" + ";".join(out) + "]"

def l_wcues(cs):
    return "[" + ";".join(f"W {C.text(c['counter'])} {l_big(c['begin'])} {l_big(c['end'])} {l_wnodes(c['payload'])}" for c in cs) + "]"


# ---- malformed / out-of-grammar texts
SNIPPETS = ["<", ">", "</", "</b>", "<b>", "<i>", "</i>", "<u>", "&", "&amp", "&amp;", "&#", "&#65", "&#x41;", "&lt", "&notit;", "&copy", ";", "{", "}", "{b}", "{/b}",
            "{bold}", "{/italic}", "\\n\\r", "\n", "\n\n", "\r", "\r\n", " ", "\t", "-->", "->", ":", ",", ".", "0", "12", "<br>", "<br/>", "<br />", "<font>",
            "<font color>", "<font color=>", "<font color=\"\">", "<font color=''>", "<font color color=red>", "<font color=\"\" color=red>", "<font color=red color=blue>",
            "<font COLOR color='#00ff00' color>", "<font color color>", "<font color size=2 color=\"#0000ff80\">", "<font color=zzz>", "<font color=red>", "<font color='#00ff00'>", "<font size=3 color=\"blue\">", "</font>",
            "<font color=rgb(1,2,3)>", "<font color=\"rgba(1,2,3,4)\">", "<font color=\"rgb( 1 , 2 , 300 )\">", "<FONT COLOR=Red>", "<font  face=\"a>b\" color=#123456>",
            "<font color=&#35;ff0000>", "<font color=\"#ff00\">", "<font color=#ff000080>", "<font color=#FF0000zz>",
            # parse_color: trailing characters, components above 255, digits and white space outside ASCII, characters that lower-case into ASCII
            "<font color=#00ff00x>", "<font color=\"#00ff00 \">", "<font color=#0000ff801>", "<font color=#0000ff8>", "<font color=\"rgb(1,2,3) \">", "<font color=rgb(1,2,3)x>",
            "<font color=\"rgba(1,2,3,4);\">", "<font color=rgb(256,0,0)>", "<font color=rgb(255,255,255)>", "<font color=rgba(0,0,0,256)>", "<font color=\"rgba(1, 2, 3, 999)\">",
            "<font color=rgb(\u0661,\u0662,\u0663)>", "<font color=rgb(\uff11,2,3)>", "<font color=\"rgb(1,\u00a02,3)\">", "<font color=\"rgb(1,\x1c2,3)\">", "<font color=\"rgb(1,\x0b2,\x0c3)\">",
            "<font color=blac\u212a>", "<font color=\u212a>", "<font color=RGB(1,2,3)>", "<font color=rgb(01,002,0003)>", "<font color=rgb(0256,0,0)>", "<font color=\" rgb(1,2,3)\">",
            "<!-- x -->", "<!x>", "<?x>", "<script>", "<style>", "</>", "</ b>", "</1>", "</b x>", "<b/>", "<b x>", "<b x=1 y>", "<bold>", "<Italic>", "<x>", "<a href=\"x\">", "<b\n>",
            "< b>", "<1>", "a<b", "&#1;", "&#128;", "&#xD800;", "&#1114112;", "&#0;", "&#x;", "&#;", "&x;", "&ampere", "&AMP;", "&Amp;", "\x00", " ", "　", "\x1c",
            "٣", "00:00:01,000 --> 00:00:02,000", "1234:00:00,000 --> 1234:00:01,0000", "1000:00:00,000 --> 12345678901234567890:00:01,000", "0001:00:00,000 --> 00002:00:00,000", "00:00:01.000 --> 00:00:02.000", "0:00:01,000 --> 0:00:02,000"]

def mutate(rng, txt):
    s = txt
    for _ in range(rng.choice([1, 1, 2, 3, 5])):
        k = rng.randrange(len(s) + 1); x = rng.random()
        if x < 0.55: s = s[:k] + rng.choice(SNIPPETS) + s[k:]
        elif x < 0.75 and s: j = min(len(s), k + rng.choice([1, 1, 2, 5, 20])); s = s[:k] + s[j:]
        elif x < 0.85 and s: j = min(len(s), k + rng.choice([1, 3, 10])); s = s[:k] + s[k:j] * 2 + s[j:]
        elif x < 0.92: s = s[:k]
        else: s = s[:k] + rng.choice(SNIPPETS) + rng.choice(SNIPPETS) + s[k:]
    return s

def gen_handmade(rng):
    H = "%d\n%s --> %s\n" % (rng.randrange(100), p_clock(gen_clock(rng)), p_clock(gen_clock(rng)))
    body = "".join(rng.choice(SNIPPETS + ["a", "b c", "xyz", "\n", " "]) for _ in range(rng.choice([1, 2, 3, 5, 8])))
    tailcue = rng.choice(["", "\n\n2\n00:00:05,000 --> 00:00:06,000\nnext\n", "\n\n2\n00:00:05,000 --> 00:00:06,000\n\n3\n00:00:07,000 --> 00:00:08,000\nz\n"])
    return H + body + "\n" + tailcue


# ---- unconstrained stream: no cue structure is imposed; pieces are drawn from an alphabet in which tags (balanced or not, any
# name, any case), brace tags, CR / LF / CR LF / LF CR in any mixture, a byte-order mark, blank-looking lines (white space that
# `\s` matches and look-alikes that it does not), counters, timing lines and arrows all occur, so that every state of the line
# machine meets every kind of line, and the tag stack meets every order of openers and closers
U_TAGS = ["b", "i", "u", "bold", "italic", "underline", "B", "I", "Bold", "font", "x", "br", "p", "FONT", "b.c", "b-1", "a:b"]
U_BLANKISH = ["", " ", "\t", "  \t ", "\x0b", "\x0c", "\x1c", "\x1f", "\x85", "\xa0", "\u2003", "\u3000", "\u200b", "\ufeff", "\u2028", "\u180e", "\x00", "\x08"]
U_EOLS = ["\n", "\n", "\n", "\r\n", "\r\n", "\r", "\n\r", "\r\r\n", "\n\n", "\r\n\r\n", ""]
U_TEXT = ["a", "xyz", "Hello", "é", "1", "42", "0", "٣", "&amp;", "&", "&#10;", "&#13;", "&lt;b&gt;", "{", "}", "<", ">", "/", "\\n\\r", "\\n", "-->", "=", "\"", "'", "#ff0000", " ", "  "]

def u_tag(rng):
    x = rng.random(); n = rng.choice(U_TAGS)
    if x < 0.30: return "<%s>" % n
    if x < 0.60: return "</%s>" % n
    if x < 0.70: return "{%s}" % n
    if x < 0.80: return "{/%s}" % n
    if x < 0.84: return "<%s/>" % n
    if x < 0.88: return "</%s%s>" % (rng.choice([" ", "\t", "\x0b", ""]), n) if rng.random() < 0.5 else "</%s%s>" % (n, rng.choice([" ", " x", "\x0b", "/", "$", "\n"]))
    if x < 0.94: return rng.choice(['<font color="%s">', "<font color='%s'>", "<font color=%s>", '<FONT COLOR="%s">', '<font size="2" color="%s">']) % \
                        rng.choice(["red", "#00ff00", "#0000ff80", "Blue", "zzz", "", "rgb(1,2,3)", "rgba(1,2,3,4)", "#12", "é",
                                    "#00ff00x", "#0000ff8", "#0000ff80f", "rgb(1,2,3)x", "rgba(1,2,3,4)-", "rgb(256,2,3)", "rgba(1,2,3,300)", "rgb(%d,%d,%d)" % (rng.randrange(300), rng.randrange(300), rng.randrange(300)),
                                    "rgb(\u0661,2,3)", "rgba(1,2,\uff13,4)", "rgb(1,\u20032,3)", "blac\u212a", "rgb(255,255,255)"])
    if x < 0.955: return rng.choice(["<font color color=%s>", "<font color=%s color=blue>", '<font color="" color=%s>', "<font color size=3 color='%s' color>", "<FONT Color COLOR=%s>"]) % \
                         rng.choice(["red", "#00ff00", "#0000ff80", "zzz", "Blue"])
    return rng.choice(["<font>", "<font color>", "<font color=\"\">", "<font color color>", "</font>", "</>", "</ >", "<>", "< b>", "<b", "</b", "<!-- c -->", "<!x>", "<![CDATA[x]]>", "<![a", "<?pi?>", "<script>", "<b x='>'>", "<b\n>"])

def u_timing(rng):
    a = p_clock(gen_clock(rng)); b = p_clock(gen_clock(rng)); x = rng.random()
    if x < 0.55: return a + rng.choice([" ", " ", "  ", "\t", "\xa0", "\x0b"]) + "-->" + rng.choice([" ", " ", "\t ", "\u3000"]) + b + rng.choice(["", "", " X1:1", "9"])
    if x < 0.65: return rng.choice(["", " ", "x", "9", "\ufeff"]) + a + " --> " + b
    if x < 0.72: return a + "-->" + b
    if x < 0.79: return a.replace(",", ".") + " --> " + b.replace(",", ".")
    if x < 0.86: return str(rng.randrange(1000, 20000)) + a[a.index(":"):] + " --> " + b
    if x < 0.925: return a + " --> " + str(rng.randrange(1000, 10 ** rng.choice([5, 9, 19, 40]))) + b[b.index(":"):]
    if x < 0.93:                      # an hour field at or just beyond what int() converts: ValueError beyond
        n = rng.choice([MAX_HOUR_DIGITS, MAX_HOUR_DIGITS + 1]); hh = rng.choice(["0", "1", "9"]) * n
        return (hh + a[a.index(":"):] + " --> " + b) if rng.random() < 0.5 else (a + " --> " + hh + b[b.index(":"):])
    return a[1:] + " --> " + b

def u_text_line(rng):
    return "".join(u_tag(rng) if rng.random() < 0.45 else rng.choice(U_TEXT) if rng.random() < 0.8 else rng.choice(U_BLANKISH)
                   for _ in range(rng.choice([1, 2, 3, 4, 6, 9])))

def u_any_line(rng):
    x = rng.random()
    if x < 0.16: return rng.choice(["1", "2", "10", " 7 ", "x", "cue 3", "٣", "", "\ufeff1"])
    if x < 0.36: return u_timing(rng)
    if x < 0.50: return rng.choice(U_BLANKISH) * rng.choice([1, 1, 2])
    return u_text_line(rng)

def gen_unconstrained(rng):
    """20 %: any lines in any order.  80 %: the order counter / timing / text lines / separator is kept so that the text parser is
    reached, but each line is only probably what its place asks for, the text lines are unconstrained, and every line ends in
    its own choice of terminator"""
    out = []
    if rng.random() < 0.25: out.append("\ufeff")
    eols = U_EOLS if rng.random() < 0.6 else [rng.choice(["\n", "\r\n", "\r"])] * 6 + U_EOLS
    if rng.random() < 0.2:
        for _ in range(rng.choice([1, 2, 3, 5, 8, 12, 20])): out.append(u_any_line(rng) + rng.choice(eols))
        return "".join(out)
    heol = lambda: rng.choice(["\n", "\r\n"]) if rng.random() < 0.92 else rng.choice(eols)      # terminators of counter / timing lines: mostly sane
    for k in range(rng.choice([1, 1, 1, 2, 2, 3, 5])):
        for _ in range(rng.choice([0, 0, 0, 1, 2])): out.append(rng.choice(["", " ", "\t", "\x0c", "\xa0"]) + heol())
        out.append((str(k + 1) if rng.random() < 0.93 else u_any_line(rng)) + heol())
        out.append((p_clock(gen_clock(rng)) + rng.choice([" ", " ", "\t", "\xa0 "]) + "-->" + rng.choice([" ", " ", "  "]) + p_clock(gen_clock(rng))
                    if rng.random() < 0.9 else u_timing(rng) if rng.random() < 0.7 else u_any_line(rng)) + heol())
        for _ in range(rng.choice([0, 1, 1, 1, 2, 2, 3, 4])):
            out.append((u_text_line(rng) if rng.random() < 0.9 else u_any_line(rng)) + rng.choice(eols))
        out.append(rng.choice(["", "", "", "", " ", "\t", "\x0b", "\x1c", "\xa0", "\u3000", "\u200b", "\ufeff", "\x00"]) + (rng.choice(["\n", "\r\n"]) if rng.random() < 0.8 else rng.choice(eols)))
    return "".join(out)


# ------------------------------------------------------------------------------------------------
# the implementation and its canonical view
# ------------------------------------------------------------------------------------------------
class Shape(Exception):
    pass

def canon_style(e):
    import ttconv.style_properties as s
    SP = s.StyleProperties
    b = i = u = False; c = None
    for prop in e.iter_styles():
        v = e.get_style(prop)
        if prop is SP.FontWeight and v is s.FontWeightType.bold: b = True
        elif prop is SP.FontStyle and v is s.FontStyleType.italic: i = True
        elif prop is SP.TextDecoration and isinstance(v, s.TextDecorationType) and v.underline is True and v.line_through is None and v.overline is None: u = True
        elif prop is SP.Color and isinstance(v, s.ColorType) and v.ident is s.ColorType.Colorimetry.RGBA8 and len(v.components) == 4 and all(isinstance(x, int) and x >= 0 for x in v.components):
            c = tuple(v.components)
        else: raise Shape(f"unexpected style {prop.__name__}={v!r} on {type(e).__name__}")
    return (b, i, u, c)

def canon_elem(e):
    import ttconv.model as m
    if isinstance(e, m.Br):
        if len(list(e)) or list(e.iter_styles()): raise Shape("Br with children or styles")
        return ("br",)
    if isinstance(e, m.Text):
        return ("text", e.get_text())
    if type(e) is m.Span:
        if e.get_begin() is not None or e.get_end() is not None or list(e.iter_animation_steps()): raise Shape("timed span")
        return ("span", canon_style(e), [canon_elem(x) for x in e])
    raise Shape(f"unexpected element {type(e).__name__} under a paragraph")

def canon_doc(doc):
    import ttconv.model as m
    body = doc.get_body()
    if body is None: raise Shape("no body")
    divs = list(body)
    if len(divs) != 1 or type(divs[0]) is not m.Div: raise Shape("body does not hold exactly one div")
    if body.get_begin() is not None or body.get_end() is not None or divs[0].get_begin() is not None or divs[0].get_end() is not None: raise Shape("timed body/div")
    out = []
    for p in divs[0]:
        if type(p) is not m.P: raise Shape(f"{type(p).__name__} under div")
        if list(p.iter_styles()): raise Shape("styled paragraph")
        times = []
        for t in (p.get_begin(), p.get_end()):
            if isinstance(t, bool) or not isinstance(t, (int, Fraction)): raise Shape(f"time of type {type(t).__name__}: {t!r}")
            times.append(Fraction(t))
        out.append((times[0], times[1], [canon_elem(x) for x in p]))
    return out

def run_impl(txt, translated):
    """-> ("ok", paragraphs) | ("none",) | ("raised", class) | ("shape", message)"""
    import ttconv.srt.reader as r
    f = io.TextIOWrapper(io.BytesIO(txt.encode("utf-8")), encoding="utf-8") if translated else io.StringIO(txt)
    try:
        doc = r.to_model(f)
    except TypeError: return ("raised", "ETypeError")
    except AttributeError: return ("raised", "EAttributeError")
    except ValueError: return ("raised", "EValueError")
    except AssertionError: return ("raised", "EAssertionError")     # html.parser on a malformed markup declaration (recorded under C18); M: Unmodelled
    except Exception as e: return ("shape", "exception " + type(e).__name__ + ": " + str(e)[:100])
    if doc is None: return ("none",)
    try:
        return ("ok", canon_doc(doc))
    except Shape as e:
        return ("shape", str(e))

def l_elem(e):
    if e[0] == "br": return "EBr"
    if e[0] == "text": return "EText " + C.text(e[1])
    (b, i, u, c), kids = e[1], e[2]
    if not (b or i or u) and c is None and len(kids) == 1 and kids[0][0] == "text": return "D " + C.text(kids[0][1])
    cs = "None" if c is None else f"(Some ({l_big(c[0])},{l_big(c[1])},{l_big(c[2])},{l_big(c[3])}))"
    return f"Sp {C.boolean(b)} {C.boolean(i)} {C.boolean(u)} {cs} [" + ";".join(l_elem(k) for k in kids) + "]"

def l_out(o):
    if o[0] == "none": return "RetNone"
    if o[0] == "raised": return f"(Raised {o[1]})"
    if o[0] == "shape": return "(Raised EValueError)"     # never reached: shape failures are reported before the case files are written
    ps = []
    for b, e, kids in o[1]:
        ps.append(f"Pq {l_z(b.numerator)} {b.denominator} {l_z(e.numerator)} {e.denominator} [" + ";".join(l_elem(k) for k in kids) + "]")
    return "(Ok [" + ";".join(ps) + "])"

def flat(o):
    """python mirror of `observe` for replay files and samples"""
    res = []
    def walk(e, st):
        if e[0] == "br": return [["br"]]
        if e[0] == "text": return [[ch, list(st)] for ch in e[1]]
        (b, i, u, c) = e[1]; st2 = (st[0] or b, st[1] or i, st[2] or u, c if c is not None else st[3]); r = []
        for k in e[2]: r += walk(k, st2)
        return r
    for b, e, kids in o[1]:
        it = []
        for k in kids: it += walk(k, (False, False, False, None))
        res.append([frac_str(b), frac_str(e), it])
    return res


def show(o):
    """an outcome as text (never through str() of a huge integer)"""
    return str(flat(o) if o[0] == "ok" else o)

# ------------------------------------------------------------------------------------------------
HEADER = ("From TT Require Import Base.Prelude Base.SrtTypes Gen.SrtTables Model.SrtReader Spec.SrtCueSpec Spec.SrtWriterOut Model.SrtReaderCases.\n"
          "From Coq Require Import QArith.\nLocal Open Scope Z_scope.\n")
GEVALS = ["print_ok", "(fun g => model_ok (tc_of g))", "(fun g => modelled (tc_of g))", "spec_ok", "model_spec"]
TEVALS = ["model_ok", "modelled"]
WEVALS = ["wprint_ok", "wspec_ok", "wmodel_spec"]


def coqc_case(path, timeout=1800):
    """evaluate one case file.  The evaluation runs with a raised oom_score_adj so that under memory pressure from other jobs the
    operating system kills it rather than the check, and an evaluation that was killed or could not start (non-zero exit without a
    Coq error message, not a timeout) is repeated."""
    import time
    rc, out = 1, ""
    for attempt in range(5):
        rc, out = C.sh(["sh", "-c", 'echo 700 > /proc/$$/oom_score_adj 2>/dev/null; exec coqc -Q "$0" TT "$1"', C.COQ, path], timeout, cwd=os.path.dirname(path))
        if rc in (0, 124) or "Error" in out: break          # done, timed out, or a genuine Coq error; anything else: killed / could not start
        time.sleep(15 * (attempt + 1))
    return rc, out


def replay(run, path):
    """re-run one replay file: the text through the implementation, judged by S when the abstract file is recorded"""
    d = json.load(open(path))["replay"]
    if d.get("text") is None and isinstance(d.get("first_mismatch"), dict): d = dict(d["first_mismatch"], kind="broken-tie")
    txt = d.get("text"); tr = d.get("stream", "").startswith("text-mode") or bool(d.get("translated"))
    if txt is None:
        run.log("replay file holds no input text:", d.get("kind")); return run.finish()
    o = run_impl(txt, tr)
    run.log("implementation:", (flat(o) if o[0] == "ok" else o))
    if o[0] == "shape":
        run.violation("replay: " + o[1], dict(kind="S-on-code", text=txt, translated=tr, detail=o[1])); return run.finish()
    C.clean_cases("Cases_C10_replay")
    body = HEADER
    if d.get("abstract_file"):
        body += f"Definition gs : list gcase := [({d['abstract_file']}, {C.boolean(tr)}, {C.text(txt)}, {l_out(o)})].\n"
        body += "Eval vm_compute in check_all (map (fun g => model_ok (tc_of g)) gs).\nEval vm_compute in check_all (map spec_ok gs).\n"
    elif d.get("written_cues"):
        body += f"Definition ws : list wcase := [({d['written_cues']}, {C.boolean(tr)}, {C.text(txt)}, {l_out(o)})].\n"
        body += "Eval vm_compute in check_all (map (fun w => let '(_, tr, txt, out) := w in model_ok (tr, txt, out)) ws).\nEval vm_compute in check_all (map wspec_ok ws).\n"
    else:
        body += f"Definition ts : list tcase := [({C.boolean(tr)}, {C.text(txt)}, {l_out(o)})].\n"
        body += "Eval vm_compute in check_all (map model_ok ts).\nEval vm_compute in check_all (map model_ok ts).\n"
    p = f"{C.GEN}/Cases_C10_replay.v"; open(p, "w").write(body)
    rc, out = C.coqc(p, 600)
    ms = re.findall(r"=\s*\(\s*(\d+)\s*,\s*(\[[^\]]*\]|nil)\s*\)", " ".join(out.split()))
    C.clean_cases("Cases_C10_replay")
    if rc != 0 or len(ms) != 2:
        run.violation("replay case file did not evaluate: " + out[-300:], dict(kind="broken-tie", text=txt), False); return run.finish()
    m_ok = "[]" in ms[0][1].replace(" ", "") or ms[0][1] == "nil"; s_ok = "[]" in ms[1][1].replace(" ", "") or ms[1][1] == "nil"
    run.log(f"replay: model = code: {m_ok}; S accepts the code's result: {s_ok}")
    if not s_ok:
        run.violation("replay: the cues read differ from the cues written", dict(d, implementation=(flat(o) if o[0] == "ok" else list(o))))
    elif not m_ok:
        run.violation("replay: model and code disagree", dict(d, kind="broken-tie"), found_input=False)
    run.cov.update(evaluations=1, distinct_nontrivial=1, rule="replay of one recorded input")
    return run.finish()


def main():
    run = C.Run(PROP, "proof")
    run.hygiene()
    sys.path.insert(0, C.SRC)
    # findings proposed by this check and not yet merged into KNOWN_FINDINGS.txt are honoured as listed
    pend = []
    try:
        for line in open(C.VERIF + "/findings_proposed/C10.txt", encoding="utf-8"):
            mt = re.match(r"finding\s+property=(\S+)\s+id=(\S+)\s+what=(.*)", line.strip())
            if mt and mt.group(1) == PROP and mt.group(2) not in {f["id"] for f in run.findings}:
                run.findings.append(dict(property=PROP, id=mt.group(2), what=mt.group(3))); pend.append(mt.group(2))
    except FileNotFoundError:
        pass
    if pend: run.cov["findings_pending_merge"] = pend

    changed, errors = gen_tables.generate({"SrtTables"})
    if errors:
        run.violation("table translator failed closed: " + "; ".join(errors), dict(kind="translator", errors=errors), False)
        return run.finish()
    if changed: run.log("tables regenerated:", changed)
    ok, log = run.build(["Proofs/C10/Time.vo", "Proofs/C10/Lines.vo", "Proofs/C10/Text.vo", "Proofs/C10/Roundtrip.vo", "Proofs/C10/NoFinalEol.vo",
                         "Proofs/C10/Font.vo", "Proofs/C10/Refs.vo", "Proofs/C10/Tags.vo", "Proofs/C10/Brace.vo", "Proofs/C10/Writer.vo", "Proofs/C10/Witness.vo",
                         "Proofs/C10/Outcomes.vo",
                         "Model/SrtReaderCases.vo"], clean=(run.tier == "thorough"))
    proofs_ok = ok and run.theorems()
    if not ok: run.proof_log = log[-2500:]
    run.log("build", "ok" if ok else "FAILED", "theorems", "ok" if proofs_ok else "FAILED")
    run.witnesses()

    logging.disable(logging.CRITICAL)
    import ttconv.srt.writer as w
    rng = run.rng
    if os.environ.get("VERIF_REPLAY"):
        return replay(run, os.environ["VERIF_REPLAY"])
    thorough = run.tier == "thorough"
    n_gram, n_writer, n_mal, n_unc = (7000, 1800, 2200, 4000) if thorough else (330, 90, 110, 220)

    gcases, tcases, wcases = [], [], []        # (kind, file, translated, text, out) / (kind, translated, text, out) / (cues, translated, text, out)
    sfail_py = []                   # failures decided in python: shape / float times
    hist = dict(cues={}, lines={}, mode={"translated": 0, "stringio": 0}, crlf=0, kinds={}, hour_width={},
                font_color={"color attribute without a value": 0, "empty value": 0, "several color attributes": 0, "value with trailing characters": 0,
                            "rgb()/rgba() component above 255": 0, "rgb()/rgba() with a character outside ASCII": 0}, long_hours={"4 or more digits": 0, "4300 digits": 0, "4301 digits": 0})
    FC = [("value with trailing characters", re.compile(r"""(?i)\scolor=["']?(#[0-9a-f]{6}([0-9a-f]{2})?|rgba?\([^)>]*\))[^"'\s>]""")),
          ("rgb()/rgba() component above 255", re.compile(r"rgba?\([^)>]*(?<![0-9])0*(25[6-9]|2[6-9][0-9]|[3-9][0-9]{2}|[1-9][0-9]{3,})(?![0-9])")),
          ("rgb()/rgba() with a character outside ASCII", re.compile(r"rgba?\([^)>]*[^\x00-\x7f]")),
          ("color attribute without a value", re.compile(r"(?i)<font[^>]*\scolor(\s+[a-z]|\s*>)")), ("empty value", re.compile(r"""(?i)<font[^>]*\scolor=(""|''|>|\s)""")),
          ("several color attributes", re.compile(r"(?i)<font[^>]*\scolor[^>]*\scolor"))]
    LH = [("4 or more digits", re.compile(r"(?<![0-9])[0-9]{4,}:[0-9]{2}:[0-9]{2},[0-9]{3}")), ("4300 digits", re.compile(r"(?<![0-9])[0-9]{4300}:[0-9]{2}:[0-9]{2},")),
          ("4301 digits", re.compile(r"(?<![0-9])[0-9]{4301}:[0-9]{2}:[0-9]{2},"))]
    def bump(d, k): d[k] = d.get(k, 0) + 1
    seen_texts = set()
    def add_g(kind, f, txt, tr):
        o = run_impl(txt, tr)
        if o[0] == "shape":
            sfail_py.append((kind, txt, tr, o[1])); return
        gcases.append((kind, f, tr, txt, o)); seen_texts.add((txt, tr))
        bump(hist["cues"], str(min(len(f["cues"]), 50))); bump(hist["mode"], "translated" if tr else "stringio"); bump(hist["kinds"], kind)
        if f["crlf"]: hist["crlf"] += 1
        for c in f["cues"]:
            bump(hist["lines"], str(p_nodes(c["payload"]).count("\n") + 1))
            for k in (c["begin"], c["end"]): bump(hist["hour_width"], str(k[1]) if k[1] <= 3 else "4-6" if k[1] <= 6 else "7-24" if k[1] <= 24 else "640-4300")
    def add_t(kind, txt, tr):
        o = run_impl(txt, tr)
        if o[0] == "shape":
            sfail_py.append((kind, txt, tr, o[1])); return
        tcases.append((kind, tr, txt, o)); seen_texts.add((txt, tr)); bump(hist["kinds"], kind)
        for name, rx in FC:
            if rx.search(txt): hist["font_color"][name] += 1
        for name, rx in LH:
            if rx.search(txt): hist["long_hours"][name] += 1

    base_texts = []
    for _ in range(n_gram):
        f = gen_file(rng, gen_features(rng)); txt = print_file(f)
        tr = rng.random() < 0.5
        add_g("grammar", f, txt, tr); base_texts.append(txt)
    # the boundary of the hour width, on every run: a field of 4300 digits is read (both kinds of stream), one of 4301 digits makes
    # int() raise ValueError - in the begin or in the end time code
    fb = gen_file(rng, dict(gen_features(rng), small=True)); fb["cues"] = fb["cues"][:1]
    # (thorough tier: the field holds a number of 4300 digits, which costs minutes of evaluation in Coq; quick tier: leading zeros)
    kb = gen_clock(rng, MAX_HOUR_DIGITS)
    if thorough: kb = (rng.choice([10 ** MAX_HOUR_DIGITS - 1, 10 ** (MAX_HOUR_DIGITS - 1), rng.randrange(10 ** (MAX_HOUR_DIGITS - 1), 10 ** MAX_HOUR_DIGITS)]),) + kb[1:]
    fb["cues"][0]["begin"] = kb
    fb["cues"][0]["end"] = gen_clock(rng, rng.choice([2, MAX_HOUR_DIGITS]))
    for tr in ((False, True) if not thorough else (rng.random() < 0.5,)): add_g("grammar", fb, print_file(fb), tr)
    long_h = rng.choice("0159") * (MAX_HOUR_DIGITS + 1)
    # the same limit in parse_color: a component of rgb() / rgba() of 4300 digits is a number, one of 4301 digits raises ValueError
    for n in (MAX_HOUR_DIGITS, MAX_HOUR_DIGITS + 1):
        comp = rng.choice("019") * n
        add_t("malformed", "1\n00:00:01,000 --> 00:00:02,000\n<font color=\"" + rng.choice(["rgb(1,2,%s)", "rgba(%s,2,3,4)", "rgb( 1 , %s , 3 )"]) % comp + "\">x</font>\n", rng.random() < 0.5)
    add_t("malformed", "1\n" + long_h + ":00:00,000 --> 00:00:01,000\nx\n", rng.random() < 0.5)
    add_t("malformed", "1\n00:00:00,000 --> " + long_h + ":00:01,000\nx\n\n2\n00:00:05,000 --> 00:00:06,000\ny\n", rng.random() < 0.5)
    n_out = n_wout = 0
    for _ in range(n_writer):
        d = gen_doc(rng)
        try:
            txt = w.from_model(d)
        except ValueError:
            continue                                   # cue shorter than 1 ms etc. (C07's business)
        f = deparse(txt); tr = rng.random() < 0.5
        if f is None: n_out += 1; add_t("writer-outside-grammar", txt, tr)
        else: add_g("writer", f, txt, tr)
        cs = deparse_w(txt)
        if cs is None: n_wout += 1
        else:
            o = run_impl(txt, tr)
            if o[0] == "shape": sfail_py.append(("writer", txt, tr, o[1]))
            else:
                wcases.append((cs, tr, txt, o)); bump(hist["kinds"], "writer-as-described")
                if any(c["end"] >= 3600000000 for c in cs): hist["writer_beyond_999h"] = hist.get("writer_beyond_999h", 0) + 1
    for k in range(n_mal):
        txt = mutate(rng, rng.choice(base_texts)[:rng.choice([400, 400, 2000])]) if k % 2 else gen_handmade(rng)
        txt = "".join(ch for ch in txt if not 0xD800 <= ord(ch) <= 0xDFFF)
        add_t("malformed", txt, rng.random() < 0.5)
    for k in range(n_unc):
        txt = "".join(ch for ch in gen_unconstrained(rng) if not 0xD800 <= ord(ch) <= 0xDFFF)
        add_t("unconstrained", txt, rng.random() < 0.5)
    logging.disable(logging.NOTSET)
    run.log(f"implementation run on {len(gcases)} grammar/writer files, {len(wcases)} writer outputs as described by Spec/SrtWriterOut.v and {len(tcases)} other texts "
            f"({n_out} writer outputs outside the grammar, {n_wout} outside the description)")

    # ---- case files
    C.clean_cases("Cases_C10_")
    shards = []; cur = dict(g=[], t=[], w=[], size=0)
    def flush():
        nonlocal cur
        if cur["g"] or cur["t"] or cur["w"]: shards.append(cur)
        cur = dict(g=[], t=[], w=[], size=0)
    for idx, (kind, f, tr, txt, o) in enumerate(gcases):
        lit = f"({l_file(f)}, {C.boolean(tr)}, {C.text(txt)}, {l_out(o)})"
        if cur["size"] + len(lit) > 180000 and cur["size"]: flush()
        cur["g"].append((idx, lit)); cur["size"] += len(lit)
    for idx, (kind, tr, txt, o) in enumerate(tcases):
        lit = f"({C.boolean(tr)}, {C.text(txt)}, {l_out(o)})"
        if cur["size"] + len(lit) > 180000 and cur["size"]: flush()
        cur["t"].append((idx, lit)); cur["size"] += len(lit)
    for idx, (cs, tr, txt, o) in enumerate(wcases):
        lit = f"({l_wcues(cs)}, {C.boolean(tr)}, {C.text(txt)}, {l_out(o)})"
        if cur["size"] + len(lit) > 180000 and cur["size"]: flush()
        cur["w"].append((idx, lit)); cur["size"] += len(lit)
    flush()
    paths = []
    for k, sh in enumerate(shards):
        txt = HEADER + "Definition gs : list gcase := [\n" + ";\n".join(l for _, l in sh["g"]) + "].\n" \
              + "Definition ts : list tcase := [\n" + ";\n".join(l for _, l in sh["t"]) + "].\n" \
              + "Definition ws : list wcase := [\n" + ";\n".join(l for _, l in sh["w"]) + "].\n" \
              + "".join(f"Eval vm_compute in check_all (map {e} gs).\n" for e in GEVALS) \
              + "".join(f"Eval vm_compute in check_all (map {e} ts).\n" for e in TEVALS) \
              + "".join(f"Eval vm_compute in check_all (map {e} ws).\n" for e in WEVALS)
        p = f"{C.GEN}/Cases_C10_{k}.v"; open(p, "w").write(txt); paths.append(p)
    # at most 8 case files at a time (other checks share the machine; a case file needs about 0.6 GB)
    from concurrent.futures import ThreadPoolExecutor
    with ThreadPoolExecutor(max(1, min(int(os.environ.get("C10_JOBS", "8")), C.NCPU))) as ex:
        res = dict(zip(paths, ex.map(coqc_case, paths)))
    names = ["print_ok", "g_model_ok", "g_modelled", "spec_ok", "model_spec", "t_model_ok", "t_modelled",
             "w_print_ok", "w_spec_ok", "w_model_spec"]
    bad = {n: [] for n in names}; broken = []
    for sh, p in zip(shards, paths):
        rc, out = res[p]
        flat_out = " ".join(out.split())
        ms = re.findall(r"=\s*\(\s*(\d+)\s*,\s*(\[[^\]]*\]|nil)\s*\)", flat_out)
        if rc != 0 or len(ms) != len(names):
            broken.append((p, f"exit {rc}: " + out[-600:])); continue
        for n, (cnt, b) in zip(names, ms):
            ids = [i for i, _ in (sh["t"] if n.startswith("t_") else sh["w"] if n.startswith("w_") else sh["g"])]
            if int(cnt) != len(ids): broken.append((p, f"{n}: {cnt} results for {len(ids)} cases")); continue
            bad[n] += [ids[int(x)] for x in re.findall(r"\d+", b)]
    if not broken: C.clean_cases("Cases_C10_")
    n_unmod = len(bad["g_modelled"]) + len(bad["t_modelled"])
    run.log(f"{len(paths)} case files: model/code mismatches {len(bad['g_model_ok']) + len(bad['t_model_ok'])}, unmodelled {n_unmod}, "
            f"S failures on the code's results {len(bad['spec_ok'])}, M-vs-S on samples {len(bad['model_spec'])}, "
            f"printer/grammar mismatches {len(bad['print_ok'])}, writer description: printer mismatches {len(bad['w_print_ok'])}, S failures {len(bad['w_spec_ok'])}, "
            f"broken files {len(broken)}")

    # ---- verdict
    def g_replay(i):
        kind, f, tr, txt, o = gcases[i]
        return dict(kind=kind, text=txt, stream="text-mode file (universal newlines)" if tr else "io.StringIO", implementation=(flat(o) if o[0] == "ok" else list(o)),
                    abstract_file=l_file(f), how="ttconv.srt.reader.to_model on `text`; S: coq/Spec/SrtCueSpec.v `cues` of abstract_file")
    unexcused = list(bad["spec_ok"])          # no finding is recorded for C10 any more: every S failure is a violation
    outcome_hist = {}
    for c in tcases:
        k = c[0] + ":" + (c[3][0] if c[3][0] != "raised" else c[3][1]); outcome_hist[k] = outcome_hist.get(k, 0) + 1
    unmod_hist = {}
    for i in bad["t_modelled"]: unmod_hist[tcases[i][0]] = unmod_hist.get(tcases[i][0], 0) + 1

    s_violation = False
    # no finding is recorded for C10: every S failure is a violation
    rc, out = C.coqc(C.COQ + "/Findings/C10.v", 600)
    stale = []
    if rc != 0: stale.append("Findings/C10.v no longer compiles: " + out[-300:])
    if stale: run.cov["stale_findings"] = stale
    if bad["w_spec_ok"]:
        i = min(set(bad["w_spec_ok"]), key=lambda j: (len(wcases[j][2]), j)); s_violation = True
        cs, tr, txt, o = wcases[i]
        run.violation(f"reading the SRT writer's own output does not return the cues that were written ({len(set(bad['w_spec_ok']))} outputs)",
                      dict(kind="writer", text=txt, stream="text-mode file (universal newlines)" if tr else "io.StringIO", implementation=(flat(o) if o[0] == "ok" else list(o)),
                           written_cues=l_wcues(cs), how="ttconv.srt.reader.to_model on `text` (an output of ttconv.srt.writer.from_model); S: coq/Spec/SrtWriterOut.v `wmeaning` of written_cues"))
    if sfail_py:
        kind, txt, tr, msg = sfail_py[0]; s_violation = True
        run.violation(f"result of to_model is not one paragraph per cue with exact rational times: {msg}",
                      dict(kind="S-on-code", clause="document shape / time type", text=txt, translated=tr, detail=msg, count=len(sfail_py)))
    if unexcused:
        i = min(set(unexcused), key=lambda j: (len(gcases[j][3]), j)); s_violation = True     # the shortest failing file
        run.violation(f"reading {gcases[i][0]} file gives cues that differ from the cues written ({len(set(unexcused))} files)",
                      dict(g_replay(i), others=[gcases[j][3][:300] for j in sorted(set(unexcused))[1:6]]))
    tie = []
    if not proofs_ok: tie.append("theorems of coq/Properties/C10.v no longer check: " + getattr(run, "proof_log", "")[-600:])
    mm = [("g", i) for i in bad["g_model_ok"]] + [("t", i) for i in bad["t_model_ok"]]
    mm.sort(key=lambda ki: len((gcases[ki[1]] if ki[0] == "g" else tcases[ki[1]])[-2]))
    if mm:
        k, i = mm[0]; c = gcases[i] if k == "g" else tcases[i]
        tie.append(f"correspondence Model/SrtReader.v vs srt/reader.py disagrees on {len(mm)} texts, first ({c[0]}) {c[-2][:200]!r} -> implementation {show(c[-1])[:300]}")
    if bad["w_print_ok"]: tie.append(f"harness parse of the writer's output disagrees with Spec/SrtWriterOut.v `wprint`/`wwf` on {len(bad['w_print_ok'])} outputs, first {wcases[bad['w_print_ok'][0]][2][:200]!r}")
    if bad["w_model_spec"]: tie.append(f"M differs from S on {len(bad['w_model_spec'])} writer outputs (the writer theorem's statement would be false), first {wcases[bad['w_model_spec'][0]][2][:200]!r}")
    if bad["print_ok"]: tie.append(f"harness printer / grammar disagree with Spec/SrtCueSpec.v on {len(bad['print_ok'])} files, first {gcases[bad['print_ok'][0]][3][:200]!r}")
    if bad["model_spec"]: tie.append(f"M differs from S on {len(bad['model_spec'])} generated grammar files (the round-trip theorem's statement would be false), first {gcases[bad['model_spec'][0]][3][:200]!r}")
    if broken: tie.append(f"case files did not evaluate: {broken[0]}")
    if tie and not s_violation:
        first = None
        if mm:
            k, i = mm[0]; c = gcases[i] if k == "g" else tcases[i]
            first = dict(kind=c[0], text=c[-2], translated=c[-3], implementation=(flat(c[-1]) if c[-1][0] == "ok" else list(c[-1])))
        run.violation("; ".join(tie), dict(kind="broken-tie", theorem_file="coq/Properties/C10.v", proofs_ok=proofs_ok,
                                           correspondence="Model/SrtReader.v to_model vs ttconv.srt.reader.to_model", first_mismatch=first), found_input=False)

    nontrivial = len({(c[3], c[2]) for c in gcases if c[1]["cues"]} | {(c[2], c[1]) for c in tcases})
    total = len(gcases) + len(tcases) + len(wcases)
    sample = None
    for c in gcases:
        if c[4][0] == "ok" and 1 <= len(c[1]["cues"]) <= 2 and len(c[3]) < 200: sample = dict(text=c[3], cues=flat(c[4])); break
    if sample is None and gcases: sample = dict(text=gcases[0][3][:400], implementation=show(gcases[0][4])[:400])
    if sample is None and tcases: sample = dict(text=tcases[0][2][:400], implementation=show(tcases[0][3])[:400])
    run.cov.update(evaluations=total * 2 + len(gcases) * 3 + len(wcases) * 3, distinct_nontrivial=nontrivial,
                   rule="evaluations = texts fed to ttconv.srt.reader.to_model, each compared in Coq with M (tree + exact times) and, for grammar / "
                        "writer files, judged by S (cues f) and cross-checked (print_file f = text, wf_file f, M vs S). Inputs: files printed from random "
                        "abstract cue files (1-50 cues, hour fields of 2 to 24 digits and now and then of 640 / 1000 / 4300 digits, minutes/seconds 00-99, ms 000-999, 1-5 lines, nested/adjacent b/i/u/font tags in "
                        "angle and short/long brace syntax, closers that close nothing, character references, CRLF/LF, blank-line runs, odd counters), outputs "
                        "of ttconv.srt.writer.from_model over random documents (judged twice: as grammar files and as instances of the writer description), "
                        "a mutation stream and an unconstrained stream (M = code only: document / None / exception class; both hold <font color>, "
                        "<font color=\"\">, several color attributes with and without values, and hour fields of 4, 5, .. 40, 4300 and 4301 digits). Each text is read through "
                        "io.StringIO or through a text-mode file with universal newlines. distinct_nontrivial = distinct (text, stream) pairs with at least "
                        "one cue or from the malformed streams.",
                   samples=[sample] if sample else [], input_kinds=hist["kinds"], cues_per_file=hist["cues"], lines_per_cue=hist["lines"], stream=hist["mode"],
                   crlf_files=hist["crlf"], hour_field_width_in_grammar_files=hist["hour_width"], font_color_forms_in_other_texts=hist["font_color"],
                   long_hour_fields_in_other_texts=hist["long_hours"], unmodelled_by_M=n_unmod, writer_outputs_outside_grammar=n_out, writer_outputs_outside_description=n_wout,
                   writer_outputs_as_described=len(wcases), writer_outputs_beyond_999h=hist.get("writer_beyond_999h", 0),
                   model_code_mismatches=len(mm), s_failures_on_code=len(set(unexcused)) + len(sfail_py),
                   outcomes_outside_grammar=outcome_hist, unmodelled_by_kind=unmod_hist)
    run.assumptions += [
        "html.parser.HTMLParser (CPython 3.12) is replaced in M by a hand-written tokenizer (start/end/self-closing tags with attributes and the "
        "end tag's name as endtagfind / tagfind_tolerant extract it, character references via the html.unescape tables, data); agreement is "
        "established by the correspondence run only, and M answers Unmodelled on constructs it does not transcribe (<!, <?, unterminated "
        "tags/quotes, <script>/<style>, non-ASCII tag names)",
        "S (Spec/SrtCueSpec.v) is my reading of the SubRip conventions: a closing tag that does not name the innermost open tag closes nothing "
        "(and one that does name it is that tag's closer, so it is not in the grammar as a stray closer); brace tags are {b} {i} {u} and their "
        "long forms; a bare '&', '<' or '{' in cue text is outside the grammar (SubRip has no escape syntax)",
        "Spec/SrtWriterOut.v describes the SRT writer's output independently of the writer's model; that every output is of this form is "
        "established per generated document (the output is parsed back and `wprint` of the result compared with it in Coq), not proved",
        "the harness maps the Python document to (times, Span/Br/Text tree with FontWeight/FontStyle/TextDecoration/Color) and fails closed on anything else",
        "CR LF files are in the grammar through both kinds of stream (text-mode file with universal newlines, io.StringIO)"]
    return run.finish(["harness/gen_c10.py (tables of re \\s / \\d, NamedColors, html.unescape; fail-closed)",
                       "harness/c10.py canon_doc (Python document -> canonical tree) and the case-file printer"])


if __name__ == "__main__":
    with C.Lock("cases_c10"):          # two runs of this check must not share coq/Gen/Cases_C10_*.v
        rc = main()
    sys.exit(rc)
