"""C09 witnesses.  The recorded findings of C09 (`finding` lines of KNOWN_FINDINGS.txt) are expected to fail and are
exercised through harness/c09.py finding_witnesses; the witnesses of the three defects repaired upstream
(`fixed:` lines: tcp-attribute-error 9e84fe8, mnr-sets-start-offset 41b1329, sn-identity 434048d) and the
regression witnesses below must pass."""
import os, re
from witnesses import witness


def _listed():
    p = os.path.join(os.path.dirname(os.path.dirname(os.path.abspath(__file__))), "KNOWN_FINDINGS.txt")
    try:
        return set(re.findall(r"(?m)^finding\s+property=C09\s+id=(\S+)", open(p, encoding="utf-8").read()))
    except OSError:
        return set()


def _mk(fid):
    def f():
        import c09
        return c09.finding_witnesses().get(fid)
    return f


FIXED = ("tcp-attribute-error", "mnr-sets-start-offset", "sn-identity")
for _fid in sorted(_listed()):
    if _fid not in FIXED:
        witness("C09", _fid)(_mk(_fid))

_BASE = dict(start=None, rows=None, nofill=False, nopad=False, fonts=None)
def _paras(r):
    return [p for d in r[1]["divs"] for p in d] if r[0] == "ok" else None


@witness("C09", "tcp-attribute-error")
def _():
    import c09
    from fractions import Fraction
    r = c09.run_reader(c09.gsi(tcp=b"0000XX00") + c09.tti(), dict(_BASE, start="TCP"))
    ps = _paras(r)
    if ps is None: return f"invalid GSI TCP with program_start_tc=TCP: {r}"
    if len(ps) != 1 or ps[0][4] != (Fraction(1), Fraction(2)): return f"programme start is not 0: {ps}"


@witness("C09", "mnr-sets-start-offset")
def _():
    import c09
    from fractions import Fraction
    # open subtitles, MNR not a number: 23 rows, no shift; a subtitle before 23 s must be kept
    r = c09.run_reader(c09.gsi(dsc=b"0", mnr=b"XX") + c09.tti(vp=20) + c09.tti(sn=1, tci=(0, 0, 30, 0), tco=(0, 0, 31, 0), vp=20), dict(_BASE, rows="MNR"))
    ps = _paras(r)
    if ps is None: return f"invalid GSI MNR with max_row_count=MNR: {r}"
    if [p[4] for p in ps] != [(Fraction(1), Fraction(2)), (Fraction(30), Fraction(31))]: return f"subtitles dropped or shifted: {[p[4] for p in ps]}"
    h = r[1]["regions"][0][3]
    if abs(h - Fraction(20 * 80, 23)) > Fraction(1, 10**9): return f"region height {float(h)} is not that of 23 rows"


@witness("C09", "sn-identity")
def _():
    import c09
    a = _paras(c09.run_reader(c09.gsi() + c09.tti(sn=5, tf=b"A") + c09.tti(sn=5, tf=b"B", tci=(0, 0, 3, 0), tco=(0, 0, 4, 0)), _BASE))
    b = _paras(c09.run_reader(c09.gsi() + c09.tti(sn=300, tf=b"A") + c09.tti(sn=300, tf=b"B", tci=(0, 0, 3, 0), tco=(0, 0, 4, 0)), _BASE))
    if a is None or b is None: return "reader failed"
    if len(a) != len(b): return f"{len(a)} paragraph(s) for SN 5,5 but {len(b)} for SN 300,300"


@witness("C09", "stl-basic-subtitle")
def _():
    import c09
    from fractions import Fraction
    r = c09.run_reader(c09.gsi() + c09.tti(tf=b"\x03\xc8a b\x8a\x80c"), dict(start=None, rows=None, nofill=False, nopad=False, fonts=None))
    if r[0] != "ok": return f"reader failed: {r}"
    p = r[1]["divs"][0][0]
    want = [("leaf", ("run", 0xFFFF00FF, 0xFF, False, False, "ä b")), ("leaf", ("br",)), ("leaf", ("run", 0xFFFFFFFF, 0xFF, True, False, "c"))]
    if p[4] != (Fraction(1), Fraction(2)) or p[5] != want: return f"paragraph {p}"


@witness("C09", "stl-extension-and-cumulative")
def _():
    import c09
    from fractions import Fraction
    data = (c09.gsi() + c09.tti(sn=1, ebn=0, cs=1, tf=b"one ") + c09.tti(sn=1, ebn=0xFE, cs=1, tf=b"user data") + c09.tti(sn=1, cs=1, tf=b"two") +
            c09.tti(sn=2, cs=3, tci=(0, 0, 2, 0), tco=(0, 0, 3, 0), tf=b"three"))
    r = c09.run_reader(data, dict(start=None, rows=None, nofill=False, nopad=False, fonts=None))
    if r[0] != "ok": return f"reader failed: {r}"
    ps = [p for d in r[1]["divs"] for p in d]
    if len(ps) != 1 or [i[0] for i in ps[0][5]] != ["sub", "sub"]: return f"paragraphs {ps}"
    if ps[0][5][0][3][0][5] != "one two" or ps[0][5][1][1:3] != (Fraction(2), Fraction(3)): return f"parts {ps[0][5]}"
