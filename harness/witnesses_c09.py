"""C09 witnesses.  The recorded findings of C09 are exercised by harness/c09.py itself (finding_witnesses);
they are registered here as corpus witnesses only once the maintainer has merged findings_proposed/C09.txt
into KNOWN_FINDINGS.txt (an unlisted failing witness would otherwise be reported as a violation).
The regression witnesses below must pass."""
import os, re
from witnesses import witness


def _listed():
    p = os.path.join(os.path.dirname(os.path.dirname(os.path.abspath(__file__))), "KNOWN_FINDINGS.txt")
    try:
        return set(re.findall(r"(?m)^finding\s+property=C09\s+id=(\S+)", open(p, encoding="utf-8").read()))
    except OSError:
        return set()


def _mk(fid):
    def f():
        import c09
        return c09.finding_witnesses().get(fid)
    return f


for _fid in sorted(_listed()):
    witness("C09", _fid)(_mk(_fid))


@witness("C09", "stl-basic-subtitle")
def _():
    import c09
    from fractions import Fraction
    r = c09.run_reader(c09.gsi() + c09.tti(tf=b"\x03\xc8a b\x8a\x80c"), dict(start=None, rows=None, nofill=False, nopad=False, fonts=None))
    if r[0] != "ok": return f"reader failed: {r}"
    p = r[1]["divs"][0][0]
    want = [("leaf", ("run", 0xFFFF00FF, 0xFF, False, False, "ä b")), ("leaf", ("br",)), ("leaf", ("run", 0xFFFFFFFF, 0xFF, True, False, "c"))]
    if p[4] != (Fraction(1), Fraction(2)) or p[5] != want: return f"paragraph {p}"


@witness("C09", "stl-extension-and-cumulative")
def _():
    import c09
    from fractions import Fraction
    data = (c09.gsi() + c09.tti(sn=1, ebn=0, cs=1, tf=b"one ") + c09.tti(sn=1, ebn=0xFE, cs=1, tf=b"user data") + c09.tti(sn=1, cs=1, tf=b"two") +
            c09.tti(sn=2, cs=3, tci=(0, 0, 2, 0), tco=(0, 0, 3, 0), tf=b"three"))
    r = c09.run_reader(data, dict(start=None, rows=None, nofill=False, nopad=False, fonts=None))
    if r[0] != "ok": return f"reader failed: {r}"
    ps = [p for d in r[1]["divs"] for p in d]
    if len(ps) != 1 or [i[0] for i in ps[0][5]] != ["sub", "sub"]: return f"paragraphs {ps}"
    if ps[0][5][0][3][0][5] != "one two" or ps[0][5][1][1:3] != (Fraction(2), Fraction(3)): return f"parts {ps[0][5]}"
