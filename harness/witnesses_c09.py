"""C09 witnesses.  The one recorded finding of C09 (df-23976) is expected to fail and is exercised through
harness/c09.py finding_witnesses; the witnesses of the repaired defects (`fixed:` lines of KNOWN_FINDINGS.txt:
tcp-attribute-error 9e84fe8, mnr-sets-start-offset 41b1329, sn-identity 434048d, and - second phase - tnb-zero-division,
cumulative-before-first, tf-strip-not-cut, comment-flag-ignored, iso6937-a4, blank-row-dropped, vp-zero-above-safe-area,
start-tc-non-string; zero-row-count is the C09 side of C18's repaired stl-zero-row-count; config-start-complete-time-code, config-rows-not-bool,
config-flags-strict are the C09 side of C19's repaired start-tc-trailing-text, max-row-count-bool, bool-decoders-accept-anything) and the regression witnesses below must pass: each checks what the specification prescribes on the input that used to
fail."""
import os, re
from witnesses import witness


def _listed():
    p = os.path.join(os.path.dirname(os.path.dirname(os.path.abspath(__file__))), "KNOWN_FINDINGS.txt")
    try:
        return set(re.findall(r"(?m)^finding\s+property=C09\s+id=(\S+)", open(p, encoding="utf-8").read()))
    except OSError:
        return set()


def _mk(fid):
    def f():
        import c09
        return c09.finding_witnesses().get(fid)
    return f


FIXED = ("tcp-attribute-error", "mnr-sets-start-offset", "sn-identity", "tnb-zero-division", "cumulative-before-first",
         "tf-strip-not-cut", "comment-flag-ignored", "iso6937-a4", "blank-row-dropped", "vp-zero-above-safe-area", "start-tc-non-string")
for _fid in sorted(_listed()):
    if _fid not in FIXED:
        witness("C09", _fid)(_mk(_fid))

_BASE = dict(start=None, rows=None, nofill=False, nopad=False, fonts=None)
def _paras(r):
    return [p for d in r[1]["divs"] for p in d] if r[0] == "ok" else None


@witness("C09", "tcp-attribute-error")
def _():
    import c09
    from fractions import Fraction
    r = c09.run_reader(c09.gsi(tcp=b"0000XX00") + c09.tti(), dict(_BASE, start="TCP"))
    ps = _paras(r)
    if ps is None: return f"invalid GSI TCP with program_start_tc=TCP: {r}"
    if len(ps) != 1 or ps[0][4] != (Fraction(1), Fraction(2)): return f"programme start is not 0: {ps}"


@witness("C09", "mnr-sets-start-offset")
def _():
    import c09
    from fractions import Fraction
    # open subtitles, MNR not a number: 23 rows, no shift; a subtitle before 23 s must be kept
    r = c09.run_reader(c09.gsi(dsc=b"0", mnr=b"XX") + c09.tti(vp=20) + c09.tti(sn=1, tci=(0, 0, 30, 0), tco=(0, 0, 31, 0), vp=20), dict(_BASE, rows="MNR"))
    ps = _paras(r)
    if ps is None: return f"invalid GSI MNR with max_row_count=MNR: {r}"
    if [p[4] for p in ps] != [(Fraction(1), Fraction(2)), (Fraction(30), Fraction(31))]: return f"subtitles dropped or shifted: {[p[4] for p in ps]}"
    h = r[1]["regions"][0][3]
    if abs(h - Fraction(20 * 80, 23)) > Fraction(1, 10**9): return f"region height {float(h)} is not that of 23 rows"


@witness("C09", "sn-identity")
def _():
    import c09
    a = _paras(c09.run_reader(c09.gsi() + c09.tti(sn=5, tf=b"A") + c09.tti(sn=5, tf=b"B", tci=(0, 0, 3, 0), tco=(0, 0, 4, 0)), _BASE))
    b = _paras(c09.run_reader(c09.gsi() + c09.tti(sn=300, tf=b"A") + c09.tti(sn=300, tf=b"B", tci=(0, 0, 3, 0), tco=(0, 0, 4, 0)), _BASE))
    if a is None or b is None: return "reader failed"
    if len(a) != len(b): return f"{len(a)} paragraph(s) for SN 5,5 but {len(b)} for SN 300,300"


@witness("C09", "stl-basic-subtitle")
def _():
    import c09
    from fractions import Fraction
    r = c09.run_reader(c09.gsi() + c09.tti(tf=b"\x03\xc8a b\x8a\x80c"), dict(start=None, rows=None, nofill=False, nopad=False, fonts=None))
    if r[0] != "ok": return f"reader failed: {r}"
    p = r[1]["divs"][0][0]
    want = [("leaf", ("run", 0xFFFF00FF, 0xFF, False, False, "ä b")), ("leaf", ("br",)), ("leaf", ("run", 0xFFFFFFFF, 0xFF, True, False, "c"))]
    if p[4] != (Fraction(1), Fraction(2)) or p[5] != want: return f"paragraph {p}"


@witness("C09", "stl-extension-and-cumulative")
def _():
    import c09
    from fractions import Fraction
    data = (c09.gsi() + c09.tti(sn=1, ebn=0, cs=1, tf=b"one ") + c09.tti(sn=1, ebn=0xFE, cs=1, tf=b"user data") + c09.tti(sn=1, cs=1, tf=b"two") +
            c09.tti(sn=2, cs=3, tci=(0, 0, 2, 0), tco=(0, 0, 3, 0), tf=b"three"))
    r = c09.run_reader(data, dict(start=None, rows=None, nofill=False, nopad=False, fonts=None))
    if r[0] != "ok": return f"reader failed: {r}"
    ps = [p for d in r[1]["divs"] for p in d]
    if len(ps) != 1 or [i[0] for i in ps[0][5]] != ["sub", "sub"]: return f"paragraphs {ps}"
    if ps[0][5][0][3][0][5] != "one two" or ps[0][5][1][1:3] != (Fraction(2), Fraction(3)): return f"parts {ps[0][5]}"


# ---- second phase: the inputs of the seven defects repaired then -------------------------------------------------------
def _text(p):
    return "".join(i[1][5] for i in p[5] if i[0] == "leaf" and i[1][0] == "run")


@witness("C09", "tnb-zero-division")
def _():
    import c09
    ps = _paras(c09.run_reader(c09.gsi(tnb=b"00000") + c09.tti() + c09.tti(sn=1, tci=(0, 0, 3, 0), tco=(0, 0, 4, 0)), _BASE))
    if ps is None or len(ps) != 2: return f"GSI TNB = 00000: {ps}"
    calls = []
    import io, ttconv.stl.reader as R
    R.to_model(io.BytesIO(c09.gsi(tnb=b"00002") + c09.tti() + c09.tti(sn=1)), None, calls.append)
    if calls != [0.0, 0.5]: return f"progress with TNB = 2: {calls}"


@witness("C09", "cumulative-before-first")
def _():
    import c09
    from fractions import Fraction
    # an intermediate member as the first block of the file opens a paragraph of its own
    ps = _paras(c09.run_reader(c09.gsi() + c09.tti(cs=2) + c09.tti(sn=1, cs=3, tci=(0, 0, 3, 0), tco=(0, 0, 4, 0), tf=b"CD"), _BASE))
    if ps is None or len(ps) != 1 or [i[0] for i in ps[0][5]] != ["sub", "sub"]: return f"CS=2 first: {ps}"
    if ps[0][5][0][1:3] != (Fraction(1), Fraction(2)) or ps[0][5][1][1:3] != (Fraction(3), Fraction(4)): return f"times {ps[0][5]}"
    # the first member of the set is dropped (before the programme start): the later members are still presented
    ps = _paras(c09.run_reader(c09.gsi() + c09.tti(cs=1, tf=b"one") + c09.tti(sn=1, cs=3, tci=(0, 0, 3, 0), tco=(0, 0, 4, 0), tf=b"two"),
                               dict(_BASE, start="00:00:02:00")))
    if ps is None or len(ps) != 1 or ps[0][5][0][1:3] != (Fraction(1), Fraction(2)) or ps[0][5][0][3][0][5] != "two": return f"first member dropped: {ps}"
    # an undefined CS value is read like a non-cumulative subtitle
    ps = _paras(c09.run_reader(c09.gsi() + c09.tti(cs=7), _BASE))
    if ps is None or len(ps) != 1 or ps[0][4] != (Fraction(1), Fraction(2)): return f"CS=7 first: {ps}"


@witness("C09", "tf-strip-not-cut")
def _():
    import c09
    ps = _paras(c09.run_reader(c09.gsi() + c09.tti(tf=b"\x8fAB"), _BASE))
    if ps is None or len(ps) != 1 or ps[0][5] != []: return f"8F 41 42 is not an empty field: {ps}"
    ps = _paras(c09.run_reader(c09.gsi() + c09.tti(ebn=0, tf=b"one \x8fjunk") + c09.tti(tf=b"two\x8f\x8fx"), _BASE))
    if ps is None or len(ps) != 1 or _text(ps[0]) != "one two": return f"extension chain with interior 8F: {ps}"


@witness("C09", "comment-flag-ignored")
def _():
    import c09
    ps = _paras(c09.run_reader(c09.gsi() + c09.tti(cf=1, tf=b"translator note") + c09.tti(sn=1, ebn=0, cf=1, tf=b"note ") +
                               c09.tti(sn=1, cf=1, tf=b"continued") + c09.tti(sn=2, tf=b"shown"), _BASE))
    if ps is None or [_text(p) for p in ps] != ["shown"]: return f"comment blocks (CF=1) presented: {ps}"


@witness("C09", "iso6937-a4")
def _():
    import c09
    ps = _paras(c09.run_reader(c09.gsi() + c09.tti(tf=b"a\xa4b\xa8"), _BASE))
    if ps is None or _text(ps[0]) != "a$b\u00a4": return f"0xA4 0xA8 decode to {ps and _text(ps[0])!r}"


@witness("C09", "blank-row-dropped")
def _():
    import c09
    ps = _paras(c09.run_reader(c09.gsi() + c09.tti(tf=b"A\x8a\x8aB", vp=10), _BASE))
    if ps is None or [i[1][0] for i in ps[0][5]] != ["run", "br", "br", "run"]: return f"single height A, empty row, B: {ps}"
    ps = _paras(c09.run_reader(c09.gsi() + c09.tti(tf=b"\x0dA\x8a\x8a\x0dB", vp=10), _BASE))
    if ps is None or [i[1][0] for i in ps[0][5]] != ["run", "br", "run"]: return f"double height A, B: {ps}"


@witness("C09", "vp-zero-above-safe-area")
def _():
    import c09
    for rows in (99, 23, 5, 3, 2):
        r = c09.run_reader(c09.gsi(dsc=b"0") + c09.tti(vp=0), dict(_BASE, rows=rows))
        if r[0] != "ok" or len(r[1]["regions"]) != 1: return f"VP=0, {rows} rows: {r}"
        x, y, w, h, after = r[1]["regions"][0]
        if not (10 <= y and y + h <= 90 + 1e-9 and h >= 0): return f"VP=0, {rows} rows: region y={float(y)} h={float(h)} outside the safe area"
    r1 = c09.run_reader(c09.gsi(dsc=b"0") + c09.tti(vp=1), dict(_BASE, rows=99))
    r0 = c09.run_reader(c09.gsi(dsc=b"0") + c09.tti(vp=0), dict(_BASE, rows=99))
    if r0[1]["regions"] != r1[1]["regions"]: return "VP=0 is not placed like the top row"


# ---- the row count below 1 (repaired for C18's stl-zero-row-count; C09_reader_no_zero_div, C09_init_rows) -------------------
@witness("C09", "zero-row-count")
def _():
    import c09
    from fractions import Fraction
    # open subtitles (DSC 0): bottom-anchored at VP 20 (2 rows), top-anchored at VP 3; the grid must be the default 23 rows
    blocks = c09.tti(vp=20, tf=b"A\x8aB") + c09.tti(sn=1, tci=(0, 0, 3, 0), tco=(0, 0, 4, 0), vp=3)
    ref = c09.run_reader(c09.gsi(dsc=b"0", mnr=b"23") + blocks, dict(_BASE, rows=23))
    if ref[0] != "ok" or len(ref[1]["regions"]) != 2: return f"reference file with 23 rows: {ref}"
    for what, mnr, rows in (("GSI MNR 00 with max_row_count=MNR", b"00", "MNR"), ("max_row_count=0", b"23", 0), ("max_row_count=-3", b"23", -3),
                            ("GSI MNR -3 with max_row_count=MNR", b"-3", "MNR"), ("max_row_count=False", b"23", False)):
        r = c09.run_reader(c09.gsi(dsc=b"0", mnr=mnr) + blocks, dict(_BASE, rows=rows))
        if r[0] != "ok": return f"{what}: {r[:2]}"
        if r[1] != ref[1]: return f"{what}: the document differs from that of 23 rows (regions {r[1]['regions']})"
        for x, y, w, h, after in r[1]["regions"]:
            if not (10 <= y and h >= 0 and y + h <= 90 + Fraction(1, 10**9)): return f"{what}: region y={float(y)} h={float(h)} outside the safe area"
    h = ref[1]["regions"][0][3]
    if abs(h - Fraction(21 * 80, 23)) > Fraction(1, 10**9): return f"region height {float(h)} is not that of rows 1..21 of 23"
    # teletext ignores the configured count, 0 included; a valid count is still honoured
    r = c09.run_reader(c09.gsi(dsc=b"1", mnr=b"00") + blocks, dict(_BASE, rows="MNR"))
    if r[0] != "ok" or r[1]["regions"] != ref[1]["regions"]: return f"teletext with MNR 00: {r[:2]}"
    r = c09.run_reader(c09.gsi(dsc=b"0", mnr=b"01") + c09.tti(vp=1), dict(_BASE, rows="MNR"))
    if r[0] != "ok" or abs(r[1]["regions"][0][3] - 80) > Fraction(1, 10**9): return f"MNR 01 is not one row: {r[:2]}"


# ---- STLReaderConfiguration.parse after the repairs made for C19 (start-tc-trailing-text, max-row-count-bool,
# ---- bool-decoders-accept-anything): C09_config_start_accepts / _no_trailing, C09_config_rows_accepts / _bool, C09_config_flag_accepts
def _parse(d):
    from ttconv.stl.config import STLReaderConfiguration
    try: return STLReaderConfiguration.parse(d)
    except ValueError: return "ValueError"
    except Exception as e: return f"{type(e).__name__}: {e}"


@witness("C09", "config-start-complete-time-code")
def _():
    import c09
    from fractions import Fraction
    for v in ("10:00:00:00xyz", "10:00:00:00 ", "10:00:00:00\n", "10:00:00:00:00", "10:00:00:000", " 10:00:00:00", "10:00:00", "1:0:0:0", "10:00:00:0",
              "TCP ", "TCPx", "", "\u0661\u0660:00:00:00", "10\n00:00:00"):
        r = _parse({"program_start_tc": v})
        if r != "ValueError": return f"program_start_tc={v!r}: expected ValueError, got {r!r}"
    for v, want in (("10:00:00:00", "10:00:00:00"), ("10;00;00;00", "10;00;00;00"), ("10:00:00;00", "10:00:00;00"), ("TCP", "TCP"), ("tcp", "TCP"),
                    ("tCp", "TCP"), (None, None)):
        r = _parse({"program_start_tc": v})
        if isinstance(r, str) or r.program_start_tc != want: return f"program_start_tc={v!r}: expected {want!r}, got {r!r}"
    # a parsed start is one the reader can use: the subtitle at 10:00:01:00 of a 10:00:00:00 programme begins at 1 s
    conf = _parse({"program_start_tc": "10:00:00:00"})
    r = c09.run_reader(c09.gsi() + c09.tti(tci=(10, 0, 1, 0), tco=(10, 0, 2, 0)), dict(_BASE, start=conf.program_start_tc))
    ps = _paras(r)
    if ps is None or len(ps) != 1 or ps[0][4] != (Fraction(1), Fraction(2)): return f"subtitle not shifted by the parsed programme start: {r[:2]}"


@witness("C09", "config-rows-not-bool")
def _():
    for v in (True, False, "23", "23 ", "", "MNR ", "MN", 23.0, 1.5, [23], {"a": 1}):
        r = _parse({"max_row_count": v})
        if r != "ValueError": return f"max_row_count={v!r}: expected ValueError, got {r!r}"
    for v, want in ((23, 23), (0, 0), (-3, -3), (2 ** 40, 2 ** 40), ("MNR", "MNR"), ("mnr", "MNR"), ("mNr", "MNR"), (None, None)):
        r = _parse({"max_row_count": v})
        if isinstance(r, str) or r.max_row_count != want or isinstance(r.max_row_count, bool): return f"max_row_count={v!r}: expected {want!r}, got {r!r}"


@witness("C09", "config-flags-strict")
def _():
    import c09
    for key in ("disable_fill_line_gap", "disable_line_padding"):
        for v in (None, 0, 1, "true", "false", "no", "", "True", 1.0, [], [False], {}):
            r = _parse({key: v})
            if r != "ValueError": return f"{key}={v!r}: expected ValueError, got {r!r}"
        for v in (True, False):
            r = _parse({key: v})
            if isinstance(r, str) or getattr(r, key) is not v: return f"{key}={v!r}: got {r!r}"
        r = _parse({})
        if isinstance(r, str) or getattr(r, key) is not False: return f"{key} absent: got {r!r}"
    # all four keys at once, and the parsed flags reach the document like the directly constructed configuration
    conf = _parse({"disable_fill_line_gap": True, "program_start_tc": "tcp", "disable_line_padding": True, "max_row_count": 11})
    if isinstance(conf, str) or (conf.disable_fill_line_gap, conf.program_start_tc, conf.disable_line_padding, conf.max_row_count, conf.font_stack) != (True, "TCP", True, 11, None):
        return f"four keys: {conf!r}"
    f = c09.gsi(dsc=b"0") + c09.tti(vp=5)
    a = c09.run_reader(f, dict(_BASE, start=conf.program_start_tc, rows=conf.max_row_count, nofill=conf.disable_fill_line_gap, nopad=conf.disable_line_padding))
    b = c09.run_reader(f, dict(_BASE, start="TCP", rows=11, nofill=True, nopad=True))
    if a[0] != "ok" or a[:2] != b[:2]: return f"parsed configuration and constructed configuration give different documents: {a[:2]} / {b[:2]}"
    # the first decoder that fails decides: a bad flag before a bad start is a ValueError
    r = _parse({"disable_fill_line_gap": "no", "program_start_tc": "10:00:00:00x"})
    if r != "ValueError": return f"two bad keys: {r!r}"


# ---- start-tc-non-string (repaired in the lab repo 06e3dc7; C09_config_start_non_string, C09_config_errors): a program_start_tc or a
# ---- font_stack that is not a string is a ValueError like every other malformed value (AttributeError / TypeError before)
@witness("C09", "start-tc-non-string")
def _():
    for key in ("program_start_tc", "font_stack"):
        for v in (True, False, 0, 5, 1.5, [], ["TCP"], ["10:00:00:00"], {"a": 1}):
            r = _parse({key: v})
            if r != "ValueError": return f"{key}={v!r}: expected ValueError, got {r!r}"
        r = _parse({key: None})
        if isinstance(r, str) or getattr(r, key) is not None: return f"{key}=null: got {r!r}"
    for v in ([], [23], {"a": 1}, 1.5):
        r = _parse({"max_row_count": v})
        if r != "ValueError": return f"max_row_count={v!r}: expected ValueError, got {r!r}"
    r = _parse({"font_stack": "Arial, sansSerif"})
    if isinstance(r, str) or len(r.font_stack) != 2 or r.font_stack[0] != "Arial": return f"font_stack string: got {r!r}"
